"""C13 - queries on a built world are total and return finite numbers (DESIGN.md C13)."""
import math
import random

from . import core, corpus, worldgen as wg
from .common import world, ok, vals

PID = 'C13'
PI = math.pi
PROPS = [(1, 0, 0), (2, 0, 0), (2, 1, 0), (3, 0, 2), (5, 0, 0), (4, 0, 0)]
PROPS_B = [(4, 0, 0), (3, 1, 3), (1, 0, 0)]


def nextafter(x, up):
    if x == 0:
        return 5e-324 if up else -5e-324
    m, e = math.frexp(x)
    eps = math.ldexp(1.0, e - 53)
    return x + eps if up else x - eps


MODEL_KINDS = ('temperature models', 'composition models', 'grains models', 'velocity models')


def degenerate_ranges(rng, w):
    """rewrite the depth ranges of models of area features and plumes so that they touch the feature's own depth range in a single
    depth (model starts where the feature ends, ends where it starts, or has no extent), optionally with the feature's max depth
    given as a surface that reaches that depth only at one listed point; the catalogue then queries exactly those depths"""
    t = w['truth']
    styles = {}
    for f, ft in zip(w['json']['features'], t['features']):
        if ft['type'] not in wg.AREA and ft['type'] != 'plume':
            continue
        d0 = ft['d0']
        d1 = ft['d1'] if ft['d1'] < 1e300 else None
        models = [m for k in MODEL_KINDS for m in f.get(k, [])]
        if not models or rng.random() < 0.3:
            continue
        style = rng.choice(['starts-at-feature-max', 'ends-at-feature-min', 'no-extent', 'two-layers', 'surface-vertex'])
        if d1 is None and style in ('starts-at-feature-max', 'surface-vertex', 'two-layers'):
            style = 'no-extent'
        if ft['type'] == 'plume' and style == 'surface-vertex':
            style = 'starts-at-feature-max'
        mid = wg.R(d0 + 0.5 * ((d1 if d1 else d0 + 2e5) - d0))
        for m in models:
            if m.get('model') in ('plate model', 'half space model', 'plate model constant age', 'chapman') and style != 'two-layers':
                continue
            if style == 'starts-at-feature-max' or style == 'surface-vertex':
                m['min depth'] = d1
                m['max depth'] = wg.R(d1 + 4e4)
            elif style == 'ends-at-feature-min':
                m['min depth'] = 0.0 if d0 == 0 else wg.R(max(0.0, d0 - 3e4))
                m['max depth'] = d0
            elif style == 'no-extent':
                m['min depth'] = mid
                m['max depth'] = mid
            elif style == 'two-layers':
                if rng.random() < 0.5:
                    m['max depth'] = mid
                else:
                    m['min depth'] = mid
        if style == 'two-layers':
            # a second copy of the first temperature model for the other layer, as in a two layer lithosphere
            for k in MODEL_KINDS:
                if f.get(k):
                    import copy as _copy
                    m2 = _copy.deepcopy(f[k][0])
                    if 'max depth' in f[k][0] and f[k][0]['max depth'] == mid:
                        m2.pop('max depth', None)
                        m2['min depth'] = mid
                    else:
                        m2.pop('min depth', None)
                        m2['max depth'] = mid
                    f[k].append(m2)
        if style == 'surface-vertex':
            cx, cy = ft['centre']
            f['max depth'] = [[wg.R(d1 + 5e4)], [d1, [[wg.R(cx), wg.R(cy)]]]]
        styles[ft['name']] = (style, mid)
    return styles


def pinched_model_surfaces(rng, w, force=False):
    """models of area features (cooling models included) get a 'max depth' surface that comes up to the model's own top at listed
    interior points: the local thickness of the model is exactly zero at those points, along the edges between them and - with three of
    them - on a whole triangle; the catalogue queries there at the top depth (0 for a plate that starts at the surface)"""
    pinch = []
    for f, ft in zip(w['json']['features'], w['truth']['features']):
        if ft['type'] not in wg.AREA or (not force and rng.random() < 0.5):
            continue
        if any(p[0] == 0.0 or p[1] == 0.0 for p in ft['poly']):
            continue
        d0 = ft['d0']
        d1 = ft['d1'] if ft['d1'] < 1e300 else d0 + 3e5
        pts = [(wg.R(ft['centre'][0]), wg.R(ft['centre'][1]))]
        for _ in range(rng.choice([0, 1, 2, 2])):
            q = wg.point_in_poly_interior(rng, ft['poly'])
            pts.append((wg.R(q[0]), wg.R(q[1])))
        for k in MODEL_KINDS:
            for m in f.get(k, []):
                if not force and rng.random() < 0.4:
                    continue
                mmin = m.get('min depth', 0.0)
                if not isinstance(mmin, (int, float)):
                    continue
                top = wg.R(max(d0, float(mmin)))
                m['max depth'] = [[wg.R(d1)]] + [[top, [[px, py]]] for (px, py) in pts]
                for (px, py) in pts:
                    pinch.append((px, py, top))
                if len(pts) >= 2:
                    pinch.append((0.5 * (pts[0][0] + pts[1][0]), 0.5 * (pts[0][1] + pts[1][1]), top))
                if len(pts) >= 3:
                    pinch.append(((pts[0][0] + pts[1][0] + pts[2][0]) / 3.0, (pts[0][1] + pts[1][1] + pts[2][1]) / 3.0, top))
    w['truth']['pinch'] = pinch


def forearc_spline(rng, w):
    """a cold plate painted first, then a slab whose mass conserving model uses the spline and reaches above the slab top (negative top
    truncation): in the fore-arc wedge the incoming temperature is colder than anything the slab model produces, so several spline
    nodes carry the same value"""
    feats = w['json']['features']
    plate, slab = feats[0], feats[1]
    plate['temperature models'] = [{'model': 'uniform', 'temperature': wg.num(rng, 150, 500)}] if rng.random() < 0.6 else \
        [{'model': 'linear', 'max depth': 4e5, 'top temperature': wg.num(rng, 150, 300), 'bottom temperature': wg.num(rng, 300, 900)}]
    plate.pop('min depth', None)
    plate['max depth'] = 6e5
    thick = w['truth']['features'][1]['thickness']
    above = wg.R(rng.uniform(0.3, 1.5) * thick)
    tr = slab['coordinates']
    cx, cy = 0.5 * (tr[0][0] + tr[-1][0]), 0.5 * (tr[0][1] + tr[-1][1])
    span = 12.0 if w['truth']['ctx'].sph else 1.5e6
    plate['coordinates'] = [[wg.R(cx - span), wg.R(cy - span)], [wg.R(cx + span), wg.R(cy - span)], [wg.R(cx + span), wg.R(cy + span)], [wg.R(cx - span), wg.R(cy + span)]]
    w['truth']['features'][0]['poly'] = [tuple(p) for p in plate['coordinates']]
    w['truth']['features'][0]['d0'], w['truth']['features'][0]['d1'] = 0.0, 6e5
    slab['temperature models'] = [{'model': 'mass conserving', 'spreading velocity': wg.num(rng, 0.01, 0.1), 'subducting velocity': wg.num(rng, 0.01, 0.1),
                                   'ridge coordinates': [[[wg.R(cx - (40.0 if w['truth']['ctx'].sph else 4e6)), wg.R(cy - span)], [wg.R(cx - (40.0 if w['truth']['ctx'].sph else 4e6)), wg.R(cy + span)]]],
                                   'min distance slab top': -above, 'max distance slab top': wg.R(thick), 'apply spline': True, 'number of points in spline': rng.randint(3, 12),
                                   'coupling depth': wg.num(rng, 3e4, 1.2e5)}]
    slab.pop('sections', None)
    for sg in slab['segments']:
        sg.pop('temperature models', None)
        sg['top truncation'] = [-above]
    w['truth']['features'][1]['above'] = above


def sloppy_rotation_matrices(rng, w):
    """rotation matrices written with two to four decimals (as people type them): finite, but not orthonormal, so that the derived
    quaternions are not of unit length"""
    def walk(o):
        if isinstance(o, dict):
            for k, v in o.items():
                if k in ('rotation matrices', 'basis rotation matrices') and isinstance(v, list):
                    nd = rng.choice([2, 3, 3, 4])
                    o[k] = [[[round(x, nd) for x in row] for row in m] for m in v]
                else:
                    walk(v)
        elif isinstance(o, list):
            for v in o:
                walk(v)
    walk(w['json'])


def vertical_slabs(rng, w):
    """slabs and faults that dip at exactly 90 degrees (so that segment junctions and the tip sit at exactly representable depths below the
    trench), mass conserving models without a taper (taper distance 0)"""
    for f, ft in zip(w['json']['features'], w['truth']['features']):
        if ft['type'] not in wg.LINE:
            continue
        def fix(segs):
            for sg in segs:
                sg['angle'] = [90.0]
                sg.pop('top truncation', None)
        fix(f['segments'])
        for sec in f.get('sections', []):
            fix(sec['segments'])
        ft['vertical'] = True
        if ft['type'] == 'subducting plate' and rng.random() < 0.6:
            cx, cy = ft['centre']
            sz = ft['size']
            thick = max(max(sg['thickness']) for sg in f['segments'])
            lat = lambda y: max(-85.0, min(85.0, y)) if w['truth']['ctx'].sph else y
            f['temperature models'] = [{'model': 'mass conserving', 'spreading velocity': wg.num(rng, 0.02, 0.1), 'subducting velocity': wg.num(rng, 0.02, 0.1),
                                        'ridge coordinates': [[[wg.R(cx - 6 * sz), wg.R(lat(cy - 3 * sz))], [wg.R(cx - 6 * sz), wg.R(lat(cy + 3 * sz))]]],
                                        'min distance slab top': wg.R(-0.3 * thick), 'max distance slab top': wg.R(thick), 'coupling depth': wg.R(rng.uniform(1e4, 8e4)),
                                        'taper distance': 0.0 if rng.random() < 0.8 else wg.num(rng, 1e3, 1e5)}]
            for sg in f['segments']:
                sg.pop('temperature models', None)
                sg['top truncation'] = [wg.R(-0.3 * thick)]
            f.pop('sections', None)
        def models(o):
            for m in o.get('temperature models', []):
                if m.get('model') == 'mass conserving' and rng.random() < 0.7:
                    m['taper distance'] = 0.0
                    m['coupling depth'] = wg.R(rng.uniform(1e4, 8e4))
        models(f)
        for sg in f['segments']:
            models(sg)
        for sec in f.get('sections', []):
            models(sec)
            for sg in sec['segments']:
                models(sg)


def ridge_through_footprint(rng, w):
    """oceanic plates with a ridge model: put the ridge through the footprint (a straight line through the centre, or a polyline with a
    vertex at the centre), so that points exactly on the ridge axis (age zero) are inside the plate"""
    for f, ft in zip(w['json']['features'], w['truth']['features']):
        if ft['type'] != 'oceanic plate' or rng.random() < 0.4:
            continue
        cx, cy = wg.R(ft['centre'][0]), wg.R(ft['centre'][1])
        s = wg.R(ft['size'])
        for m in f.get('temperature models', []):
            if 'ridge coordinates' in m:
                style = rng.choice(['meridian', 'parallel', 'vertex'])
                if style == 'meridian':
                    m['ridge coordinates'] = [[[cx, wg.R(cy - 2 * s)], [cx, wg.R(cy + 2 * s)]]]
                elif style == 'parallel':
                    m['ridge coordinates'] = [[[wg.R(cx - 2 * s), cy], [wg.R(cx + 2 * s), cy]]]
                else:
                    m['ridge coordinates'] = [[[wg.R(cx - 2 * s), wg.R(cy - s)], [cx, cy], [wg.R(cx + s), wg.R(cy + 2 * s)]]]
                if isinstance(m.get('spreading velocity'), list):
                    m['spreading velocity'] = 0.05


def catalogue(rng, w, extreme):
    """-> list of (label, sx, sy, depth) in file units, and raw cartesian points list [(label, x, y, z, depth)]"""
    t = w['truth']
    ctx = t['ctx']
    surf = []
    raw = []
    depths_special = [0.0, -0.0, 1e-9, 1.0]
    for (px, py, top) in t.get('pinch', []):
        for d in (top, nextafter(top, True), nextafter(top, False) if top > 0 else 0.0, 0.0):
            surf.append(('model-thickness-zero', px, py, d))
    for ft in t['features']:
        d0 = ft['d0']
        d1 = ft['d1'] if ft['d1'] < 1e300 else None
        fdepths = [d0] + ([d1] if d1 is not None else []) + [nextafter(d0, True), nextafter(d0, False)] + ([nextafter(d1, True), nextafter(d1, False)] if d1 else [])
        mid = 0.5 * (d0 + (d1 if d1 else d0 + 2e5))
        fj = next((f for f in w['json']['features'] if f.get('name') == ft['name']), None)
        if fj is not None and (ft['type'] in wg.AREA or ft['type'] == 'plume'):
            bounds = set()
            for k in MODEL_KINDS:
                for m in fj.get(k, []):
                    for key in ('min depth', 'max depth'):
                        if isinstance(m.get(key), (int, float)) and m[key] < 1e300:
                            bounds.add(float(m[key]))
            cxy = ft['centre'] if ft['type'] in wg.AREA else tuple(ft['coords'][-1])
            for b in sorted(bounds):
                for d in (b, nextafter(b, True), nextafter(b, False)):
                    surf.append(('model-depth-bound', wg.R(cxy[0]), wg.R(cxy[1]), d))
                if ft['type'] in wg.AREA:
                    a = ft['poly'][0]
                    surf.append(('model-depth-bound', a[0], a[1], b))
        if fj is not None and ft['type'] == 'oceanic plate':
            for m in fj.get('temperature models', []):
                for ridge in m.get('ridge coordinates', []) if isinstance(m.get('ridge coordinates'), list) else []:
                    for k, rp in enumerate(ridge):
                        ds = {0.0, d0, float(m.get('min depth', 0.0)) if isinstance(m.get('min depth', 0.0), (int, float)) else 0.0, 1.0, mid}
                        for d in ds:
                            surf.append(('on-the-ridge-axis', rp[0], rp[1], d))
                            if k + 1 < len(ridge):
                                for u in (0.5, 0.25):
                                    surf.append(('on-the-ridge-axis', rp[0] + u * (ridge[k + 1][0] - rp[0]), rp[1] + u * (ridge[k + 1][1] - rp[1]), d))
        if ft['type'] in wg.AREA:
            poly = ft['poly']
            n = len(poly)
            for k in range(n):
                a, b = poly[k], poly[(k + 1) % n]
                for d in rng.sample(fdepths, min(2, len(fdepths))) + [mid]:
                    surf.append(('polygon-vertex', a[0], a[1], d))
                    surf.append(('polygon-edge-midpoint', 0.5 * (a[0] + b[0]), 0.5 * (a[1] + b[1]), d))
            cx, cy = ft['centre']
            for d in fdepths + depths_special:
                surf.append(('feature-depth-bound', cx, cy, d))
        elif ft['type'] == 'plume':
            for c, a, dep in zip(ft['coords'], ft['a'], ft['depths']):
                for d in (dep, nextafter(dep, True), d0, mid):
                    surf.append(('plume-centre', c[0], c[1], d))
                    surf.append(('plume-rim', c[0] + a, c[1], d))
            surf.append(('plume-tip', ft['coords'][0][0], ft['coords'][0][1], d0))
        else:
            tr = ft['trench']
            L = ft['length']
            th = math.radians(ft['angle0'])
            unit = ctx.unit()
            for k in range(len(tr)):
                for d in (d0, 0.0, d0 + 0.5 * L, nextafter(d0, True)):
                    surf.append(('trench-coordinate', tr[k][0], tr[k][1], d))
                if k + 1 < len(tr):
                    for u in (0.5, 0.25, 1e-9):
                        px, py = tr[k][0] + u * (tr[k + 1][0] - tr[k][0]), tr[k][1] + u * (tr[k + 1][1] - tr[k][1])
                        for d in (d0, d0 + 1e4, d0 + 0.3 * L, d0 + L):
                            surf.append(('on-the-trench-line-and-below-it', px, py, d))
                        # the slab tip and along the slab surface (straight dip estimate)
                        ex, ey = tr[k + 1][0] - tr[k][0], tr[k + 1][1] - tr[k][1]
                        Ln = math.hypot(ex, ey) or 1.0
                        nx, ny = -ey / Ln, ex / Ln
                        if (ft['dip'][0] - px) * nx + (ft['dip'][1] - py) * ny < 0:
                            nx, ny = -nx, -ny
                        for s in (L, 0.5 * L, L * (1 + 1e-12)):
                            surf.append(('slab-surface-or-tip', px + nx * s * math.cos(th) / unit, py + ny * s * math.cos(th) / unit, d0 + s * math.sin(th)))
                        if ft.get('above'):
                            # the wedge above the slab top that a negative top truncation admits (straight dip estimate)
                            for s in (0.2 * L, 0.4 * L, 0.6 * L, 0.8 * L):
                                for nn in (0.05, 0.2, 0.4, 0.6, 0.8, 0.95):
                                    off = -nn * ft['above']
                                    hh = s * math.cos(th) - off * math.sin(th)
                                    vv = s * math.sin(th) + off * math.cos(th)
                                    if d0 + vv > 0:
                                        surf.append(('forearc-wedge-above-the-slab-top', px + nx * hh / unit, py + ny * hh / unit, d0 + vv))
            surf.append(('dip-point', ft['dip'][0], ft['dip'][1], d0 + 1e4))
            if ft.get('vertical') and fj is not None:
                # exactly at the segment junctions and at the tip of a vertical slab, on the trench and a little to both sides
                cum = 0.0
                marks = []
                for sg in fj['segments']:
                    cum += sg['length']
                    marks.append(d0 + cum)
                thick = max(max(sg['thickness']) for sg in fj['segments'])
                for k in range(len(tr) - 1):
                    for u in (0.5, 0.3):
                        px, py = tr[k][0] + u * (tr[k + 1][0] - tr[k][0]), tr[k][1] + u * (tr[k + 1][1] - tr[k][1])
                        ex, ey = tr[k + 1][0] - tr[k][0], tr[k + 1][1] - tr[k][1]
                        Ln = math.hypot(ex, ey) or 1.0
                        for off in (0.0, 0.3, -0.3, 0.7):
                            qx, qy = px - ey / Ln * off * thick / unit, py + ex / Ln * off * thick / unit
                            for dm in marks:
                                for dd in (dm, nextafter(dm, False), nextafter(dm, True)):
                                    surf.append(('vertical-slab-junction-or-tip', qx, qy, dd))
    base = t['base']
    for _ in range(10):
        surf.append(('random', base[0] + rng.uniform(-2, 2) * base[2], base[1] + rng.uniform(-2, 2) * base[2], rng.choice([0.0, rng.uniform(0, 7e5)])))
    if ctx.sph:
        R = ctx.R
        for d in (0.0, 1e5, 5e5):
            r = R - d
            raw.append(('north-pole', 0.0, 0.0, r, d))
            raw.append(('south-pole', 0.0, 0.0, -r, d))
            raw.append(('date-line-y=+0', -r, 0.0, 0.0, d))
            raw.append(('date-line-y=-0', -r, -0.0, 0.0, d))
            raw.append(('date-line-north', -r * math.cos(0.7), 0.0, r * math.sin(0.7), d))
            raw.append(('prime-meridian', r, 0.0, 0.0, d))
        raw.append(('planet-centre', 0.0, 0.0, 0.0, R))
        raw.append(('planet-centre-negative-zero', -0.0, -0.0, -0.0, R))
        raw.append(('near-planet-centre', 1e-300, 0.0, 0.0, R))
        raw.append(('inconsistent-depth', R, 0.0, 0.0, 1e5))
    else:
        # cartesian: the surface height z + depth relative to the features' min depth decides the slab frame
        for ft in t['features']:
            if ft['type'] in wg.LINE:
                tr = ft['trench']
                px, py = 0.5 * (tr[0][0] + tr[1][0]) + 1e4, 0.5 * (tr[0][1] + tr[1][1]) + 2e4
                for d in (ft['d0'] + 5e4, ft['d0'] + 1e5):
                    raw.append(('cartesian-surface-height-equals-min-depth', px, py, ft['d0'] - d, d))
                    raw.append(('cartesian-surface-height-below-min-depth', px, py, ft['d0'] - d - 5e4, d))
                    raw.append(('cartesian-surface-at-z=0', px, py, -d, d))
    if extreme:
        for mag in (1e9, 1e12):
            raw.append(('huge-coordinates', mag, -mag, mag, 1e5))
            raw.append(('huge-depth', 1e5, 1e5, 1e5, mag))
            raw.append(('huge-negative-depth', 1e5, 1e5, 1e5, -mag))
    return surf, raw


def main(tier, seed, replay):
    core.build('asan')
    rng = random.Random(seed * 4447 + 13)
    V = core.Verdict(PID, tier, seed)
    V.coverage['rule'] = ('generated worlds with finite parameters (all feature/model types, both systems) and corpus worlds queried (3D and 2D, full property lists) at a catalogue of degenerate locations derived from '
                          'the truth record: polygon vertices and edge midpoints, feature min/max depths exactly and their floating point neighbours, the own min/max depth exactly and its neighbours (half of the worlds have model ranges rewritten to touch the range of the feature in one depth: starting where the feature ends, ending where it starts, without extent, two layers meeting at one depth, a max depth surface reaching the min depth of the model at one listed point; a third of the worlds give models - cooling models included - a max depth surface that pinches out to zero local thickness at listed points, along the edge and on the triangle between them; a fore-arc family: a cold plate painted first, then a slab whose mass conserving model applies the spline and reaches above the slab top, queried in the wedge above the slab top), plume centres/rims/tip, points exactly on a ridge axis (ridges rewritten to pass through the plate) at depth zero and the top of the model, rotation matrices written with 2-4 decimals (a quarter of the worlds), exactly vertical slabs/faults queried exactly at their segment junctions and tip (mass conserving without taper), trench coordinates, points on the trench line and '
                          'below it, slab surface and tip, dip point, poles, the date line with both signs of zero, the planet centre, cartesian surface heights at/below the min depth, random points (thorough: magnitudes '
                          'up to 1e12): every answer finite or a std::exception, no sanitizer report, signal or hang; non-trivial = catalogue points on a degenerate locus')
    quick = tier == 'quick'
    n_gen, n_corpus = (150, 40) if quick else (4500, 130)
    jobs = []
    n_pinch = 36 if quick else 1080
    cooling = ['plate model constant age', 'half space model', 'plate model', 'chapman', 'linear', 'adiabatic']
    n_forearc = 24 if quick else 720
    for i in range(n_gen + n_pinch + n_forearc):
        wrng = random.Random(rng.getrandbits(48))
        if i >= n_gen + n_pinch:
            w = wg.gen_world(wrng, {'nfeatures': 2, 'type_sequence': ['continental plate', 'subducting plate'], 'p_grains': 0.2, 'p_velocity': 0.2, 'max_bend': 25.0})
            forearc_spline(wrng, w)
        elif i >= n_gen:
            # the pinch-out family: one area feature, one temperature model of each depth-dependent kind in turn, the model's max depth
            # surface coming up to its top (half of the time the surface of the world) at listed interior points
            name = cooling[i % len(cooling)]
            ftype = 'oceanic plate' if name in cooling[:3] else ('continental plate' if name == 'chapman' else wrng.choice(list(wg.AREA)))
            w = wg.gen_world(wrng, {'nfeatures': 1, 'types': [ftype], 'p_temperature': 1.0, 'allow_temperature': [name], 'p_grains': 0.3, 'p_velocity': 0.3})
            if wrng.random() < 0.6:
                w['json']['features'][0].pop('min depth', None)
                w['truth']['features'][0]['d0'] = 0.0
                for k in MODEL_KINDS:
                    for m in w['json']['features'][0].get(k, []):
                        if isinstance(m.get('min depth'), (int, float)) and wrng.random() < 0.7:
                            m.pop('min depth')
        else:
            w = wg.gen_world(wrng, {'nfeatures': (1, 5), 'p_grains': 0.6 if i % 4 == 0 else 0.5, 'p_velocity': 0.5})
        if i >= n_gen:
            pass
        elif i % 2 == 1:
            degenerate_ranges(wrng, w)
        if i % 3 != 0 and i < n_gen + n_pinch:
            ridge_through_footprint(wrng, w)
        if i % 4 == 0 and i < n_gen + n_pinch:
            sloppy_rotation_matrices(wrng, w)
        if i % 5 == 1 and i < n_gen + n_pinch:
            vertical_slabs(wrng, w)
        if i >= n_gen + n_pinch:
            pass
        elif i >= n_gen:
            pinched_model_surfaces(wrng, w, force=True)
        elif i % 3 == 2:
            pinched_model_surfaces(wrng, w)
        fn = 'w%d.wb' % i
        c = core.Case('w%d' % i, files={fn: wg.dumps(w['json'])})
        world(c, 1, core.workfile(PID, fn))
        ctx = w['truth']['ctx']
        surf, raw = catalogue(wrng, w, not quick)
        plan = []
        for (label, sx, sy, d) in surf:
            if ctx.sph:
                sy = max(-90.0, min(90.0, sy))
            x, y, z = ctx.point(sx, sy, d)
            props = PROPS if wrng.random() < 0.7 else PROPS_B
            plan.append((label, (x, y, z, d), c.add('q3', 1, core.hx(x), core.hx(y), core.hx(z), core.hx(d), core.props_str(props))))
        for (label, x, y, z, d) in raw:
            plan.append((label, (x, y, z, d), c.add('q3', 1, core.hx(x), core.hx(y), core.hx(z), core.hx(d), core.props_str(PROPS))))
        if w['truth']['cross']:
            for _ in range(8):
                d = wrng.choice([0.0, wrng.uniform(0, 5e5)])
                (x2, z2), _s = wg.section_query(ctx, w['truth']['cross'], wrng.choice([0.0, 1.0, wrng.uniform(-0.5, 1.5)]), d)
                plan.append(('2d-section', (x2, z2, d), c.add('q2', 1, core.hx(x2), core.hx(z2), core.hx(d), core.props_str(PROPS))))
            plan.append(('2d-origin', (0.0, 0.0, 0.0), c.add('q2', 1, core.hx(0.0), core.hx(0.0), core.hx(0.0), core.props_str(PROPS))))
        jobs.append((c, plan, fn))
    files = corpus.world_files()
    rng.shuffle(files)
    for d in [d for d in (corpus.describe(p) for p in files) if d][:n_corpus]:
        ctx = corpus.ctx_for(d)
        c = core.Case('c%d' % len(jobs))
        c.add('world', 1, 1, 0, 0, '-', d['path'])
        plan = []
        x0, y0, x1, y1 = d['bbox']
        pts = [(x0, y0), (x1, y1), (0.5 * (x0 + x1), 0.5 * (y0 + y1)), (x0, y1)] + [(rng.uniform(x0, x1), rng.uniform(y0, y1)) for _ in range(12)]
        for (sx, sy) in pts:
            for dep in (0.0, rng.uniform(0, 3e5), 1e5):
                if ctx.sph:
                    sy = max(-90.0, min(90.0, sy))
                    sx = ((sx + 180.0) % 360.0) - 180.0
                x, y, z = ctx.point(sx, sy, dep)
                plan.append(('corpus', (x, y, z, dep), c.add('q3', 1, core.hx(x), core.hx(y), core.hx(z), core.hx(dep), core.props_str(PROPS))))
        plan.append(('cartesian-surface-at-z=0', (x0, y0, -1e5, 1e5), c.add('q3', 1, core.hx(0.5 * (x0 + x1)), core.hx(0.5 * (y0 + y1)), core.hx(-1e5), core.hx(1e5), core.props_str(PROPS))))
        jobs.append((c, plan, d['path']))
    # the great-circle kernel underneath every ridge distance, at the pairs whose cosine rounds to just outside [-1,1]: exactly antipodal
    # points (a plate wider than 180 degrees contains the antipode of its own ridge), identical points, the poles
    kc = core.Case('gc_kernel', files={'gc_sph.wb': '{"version":"1.1","coordinate system":{"model":"spherical","depth method":"starting point"},"features":[]}'})
    world(kc, 1, core.workfile(PID, 'gc_sph.wb'))
    kplan = []
    krng = random.Random(seed * 31337 + 13)
    for _ in range(400 if quick else 12000):
        r = krng.choice([6371000.0, 1.0, krng.uniform(1e5, 7e6)])
        lon1 = krng.uniform(-math.pi, math.pi)
        lat1 = krng.choice([krng.uniform(-1.57, 1.57), 0.0, math.pi / 2, -math.pi / 2])
        if krng.random() < 0.7:
            lon2, lat2 = (lon1 + math.pi if lon1 <= 0 else lon1 - math.pi), -lat1
        else:
            lon2, lat2 = lon1, lat1
        kplan.append(((r, lon1, lat1, lon2, lat2), kc.add('gcdist', 1, core.hx(r), core.hx(lon1), core.hx(lat1), core.hx(lon2), core.hx(lat2))))
    core.run_cases('asan', [j[0] for j in jobs] + [kc], PID, per_case_timeout=120)
    if kc.crash:
        V.crash(kc, 'great circle kernel')
    for (arg, idx) in kplan:
        res = kc.results[idx] if kc.results else ('missing', '')
        if res[0] != 'ok':
            continue
        V.count()
        v = core.fh(res[1].split(' ')[0])
        if v != v or abs(v) == float('inf'):
            V.violation('non-finite-value:nan:great-circle-distance-of-antipodal-or-identical-points', {'arguments (r, lon1, lat1, lon2, lat2)': arg, 'value': res[1]})
        else:
            V.nontrivial(('gc', arg))
    labels = {}
    for (c, plan, fn) in jobs:
        if c.crash:
            at = c.crash['at']
            lab = next((l for (l, q, i) in plan if i == at), '?')
            key = V.crash(c, {'world': fn, 'location': lab})
        if c.results[0][0] != 'ok':
            continue
        for (label, q, idx) in plan:
            res = c.results[idx]
            if res[0] == 'missing':
                continue
            V.count()
            labels[label] = labels.get(label, 0) + 1
            if label != 'random' and label != 'corpus':
                V.nontrivial((fn, label, q))
            if res[0] == 'ex':
                if res[1] == '<EMPTY>':
                    V.violation('exception-without-message', {'world': fn, 'location': label, 'query': q})
                continue
            if res[0] != 'ok':
                V.violation('query-ends-with-a-non-standard-exception', {'world': fn, 'location': label, 'query': q, 'res': res})
                continue
            v = vals(res)
            bad = [x for x in v if x != x or abs(x) == float('inf')]
            if bad:
                what = 'nan' if any(x != x for x in bad) else 'inf'
                V.violation('non-finite-value:%s:%s' % (what, label), {'world': fn, 'location': label, 'query': q, 'values': v[:12], 'cmd': c.cmds[idx]})
        V.sample({'world': fn, 'location': plan[0][0], 'query': plan[0][1], 'answer': c.results[plan[0][2]][1][:60]}, limit=4)
    V.coverage['catalogue_locations'] = labels
    return V.finish(floor_nontrivial=3000 if quick else 90000, floor_evaluations=8000)
