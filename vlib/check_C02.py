"""C02 - features paint in file order; only covering features matter; operations compose (DESIGN.md C02)."""
import copy
import random

from . import core, worldgen as wg
from .common import world, ok, vals, q3, rel_close

PID = 'C02'
NCOMP = 4
KINDS = ['temperature models', 'composition models', 'grains models', 'velocity models']


def props_for(ncomp):
    return [(1, 0, 0)] + [(2, c, 0) for c in range(ncomp)] + [(3, 0, 2), (3, 1, 2), (4, 0, 0)]


def apply_op(op, old, new):
    if op in ('replace', 'replace defined only'):
        return new
    if op == 'add':
        return old + new
    if op == 'subtract':
        return old - new
    raise ValueError(op)


def single_model_feature(f, kind, k, op=None):
    g = {key: copy.deepcopy(v) for key, v in f.items() if key not in KINDS and key != 'sections'}
    m = copy.deepcopy(f[kind][k])
    if op is not None:
        m['operation'] = op
    g[kind] = [m]
    return g


def build_stack_case(rng, sid, tier):
    w = wg.gen_world(rng, {'nfeatures': (2, 6), 'cross_section': False, 'force_surface': False, 'sections': False, 'segment_models': False,
                           'p_grains': 0.3, 'p_velocity': 0.0, 'ncomp': NCOMP, 'p_composition': 0.85, 'p_temperature': 0.85})
    doc = w['json']
    feats = doc['features']
    n = len(feats)
    ctx = w['truth']['ctx']
    base = {k: v for k, v in doc.items() if k != 'features'}
    files = {}
    worlds = {}      # name -> world id

    def add_world(name, features):
        d = dict(base)
        d['features'] = features
        fn = '%s_%s.wb' % (sid, name)
        files[fn] = wg.dumps(d)
        worlds[name] = (len(worlds) + 1, fn)

    add_world('W', feats)
    add_world('E', [])
    for i, f in enumerate(feats):
        add_world('F%d' % i, [f])
    has_mc = [any(m.get('model') == 'mass conserving' for m in f.get('temperature models', [])) for f in feats]
    for i, f in enumerate(feats):
        for k, m in enumerate(f.get('temperature models', [])):
            add_world('F%d_T%d_r' % (i, k), [single_model_feature(f, 'temperature models', k, 'replace')])
            add_world('F%d_T%d_a' % (i, k), [single_model_feature(f, 'temperature models', k, 'add')])
        for k, m in enumerate(f.get('composition models', [])):
            add_world('F%d_C%d_r' % (i, k), [single_model_feature(f, 'composition models', k, 'replace')])
    # variants: deletions and moves
    variants = []
    for v in range(4):
        if rng.random() < 0.5 and n >= 2:
            D = set(rng.sample(range(n), rng.randint(1, n - 1)))
            order = [i for i in range(n) if i not in D]
            variants.append(('del', D, order))
        else:
            k = rng.randrange(n)
            order = [i for i in range(n) if i != k]
            order.insert(rng.randrange(n), k)
            if order == list(range(n)):
                continue
            variants.append(('move', {k}, order))
    for vi, (vk, S, order) in enumerate(variants):
        add_world('V%d' % vi, [feats[i] for i in order])
    # one operation variant: change the operation of one model, the fold oracle covers it through the W of another stack;
    c = core.Case(sid, files=files)
    for name, (wid, fn) in worlds.items():
        world(c, wid, core.workfile(PID, fn))
    tag_idx = {name: c.add('tags', wid) for name, (wid, fn) in worlds.items()}
    pts = wg.sample_points(rng, w, 40, p_inside=0.85)
    props = props_for(NCOMP)
    # the order of the request is part of the workload: models get the value painted so far from the request's own result vector,
    # so multi-valued blocks (grains, velocity) in front of temperature / compositions must not matter
    if rng.random() < 0.7:
        props = list(props)
        rng.shuffle(props)
    plan = []
    for (sx, sy, d) in pts:
        plan.append(((sx, sy, d), {name: q3(c, wid, ctx, sx, sy, d, props) for name, (wid, fn) in worlds.items()}))
    return c, {'sid': sid, 'doc': doc, 'n': n, 'worlds': worlds, 'variants': variants, 'tag_idx': tag_idx, 'plan': plan, 'props': props, 'has_mc': has_mc, 'truth': w['truth']}


def tag_name(tags, v):
    i = int(v)
    if i < 0:
        return None
    return tags[i] if i < len(tags) else '<index %d out of range>' % i


def same_answer(a, b, props, tags_a, tags_b):
    """bit equality of all blocks, tags compared by name"""
    for p, ba, bb in zip(props, core.split_blocks(a, props), core.split_blocks(b, props)):
        if p[0] == 4:
            if tag_name(tags_a, ba[0]) != tag_name(tags_b, bb[0]):
                return False, p
        elif not core.same_bits(ba, bb):
            return False, p
    return True, None


def check_stack(V, c, t):
    sid = t['sid']
    if c.crash:
        V.crash(c, sid)
        return
    worlds = t['worlds']
    feats = t['doc']['features']
    n = t['n']
    props = t['props']
    for name, (wid, fn) in worlds.items():
        if not ok(c.results[wid - 1]):
            # a world of the family was rejected: if W itself is rejected there is nothing to check; otherwise a sub-world
            # of an accepted world must be accepted as well
            if name == 'W':
                return
            if ok(c.results[worlds['W'][0] - 1]):
                V.violation('sub-world-of-an-accepted-world-rejected', {'stack': sid, 'world': name, 'res': c.results[wid - 1]})
            return
    tags = {name: (c.results[i][1].split('|') if c.results[i][1] else []) for name, i in t['tag_idx'].items()}
    for (pt, idx) in t['plan']:
        res = {name: c.results[i] for name, i in idx.items()}
        if any(r[0] == 'missing' for r in res.values()):
            continue
        if any(not ok(r) for r in res.values()):
            # an exception in one of the worlds: must also show in W if the throwing feature is in W (all are); not judged further
            V.coverage['points_with_exceptions'] = V.coverage.get('points_with_exceptions', 0) + 1
            continue
        val = {name: vals(r) for name, r in res.items()}
        # blocks in the canonical order (temperature, compositions, grains, tag) whatever the order of the request was
        canonical = props_for(NCOMP)
        order_of = [props.index(p) for p in canonical]
        blocks = {}
        for name, v in val.items():
            sp = core.split_blocks(v, props)
            blocks[name] = [sp[k] for k in order_of]
        ti = canonical.index((4, 0, 0))
        covers = [blocks['F%d' % i][ti][0] >= 0 for i in range(n)]
        ncover = sum(covers)
        V.count()
        detail = {'stack': sid, 'point': pt, 'covers': covers, 'features': [(f['model'], f['name'], f.get('tag')) for f in feats]}
        # ---- tag of the last covering feature
        wtag = tag_name(tags['W'], blocks['W'][ti][0])
        last = None
        for i in range(n):
            if covers[i]:
                last = i
        want = None if last is None else tag_name(tags['F%d' % last], blocks['F%d' % last][ti][0])
        if wtag != want:
            V.violation('tag-is-not-that-of-the-last-covering-feature', dict(detail, tag=wtag, expected=want))
        elif last is not None:
            # ... and that tag is the one the file declares: its "tag" entry or, documented default, the model name
            declared = feats[last].get('tag') or feats[last]['model']
            if wtag != declared:
                V.violation('tag-name-is-not-the-declared-tag-or-the-model-name:%s' % feats[last]['model'], dict(detail, tag=wtag, declared=declared))
        # ---- locality: deleting / moving non covering features changes nothing
        for vi, (vk, S, order) in enumerate(t['variants']):
            if any(covers[i] for i in S):
                continue
            same, p = same_answer(val['W'], val['V%d' % vi], props, tags['W'], tags['V%d' % vi])
            if not same:
                key = 'non-covering-feature-has-influence:%s:%s' % ('deleted' if vk == 'del' else 'moved', {1: 'temperature', 2: 'composition', 3: 'grains', 4: 'tag'}[p[0]])
                V.violation(key, dict(detail, variant=(vk, sorted(S), order), property=p, W=val['W'], variant_answer=val['V%d' % vi]))
            if any(covers) and any((j < i) for j in S for i in range(n) if covers[i]):
                V.nontrivial((sid, pt, 'v%d' % vi))
        # ---- fold oracle
        if any(t['has_mc'][i] and covers[i] for i in range(n)):
            continue
        bg = blocks['E']
        T = bg[0][0]
        comp = [bg[1 + cc][0] for cc in range(NCOMP)]
        nonreplace = False
        line_feature = False
        for i in range(n):
            if not covers[i]:
                continue
            f = feats[i]
            if f['model'] in ('subducting plate', 'fault'):
                line_feature = True
            for k, m in enumerate(f.get('temperature models', [])):
                r = blocks['F%d_T%d_r' % (i, k)][0][0]
                a = blocks['F%d_T%d_a' % (i, k)][0][0]
                applies = (r != bg[0][0]) or (a != bg[0][0])
                if not applies:
                    continue
                op = m.get('operation', 'replace')
                T = apply_op(op, T, r)
                nonreplace = nonreplace or op != 'replace'
            for k, m in enumerate(f.get('composition models', [])):
                cb = blocks['F%d_C%d_r' % (i, k)]
                listed = m['compositions']
                applies = any(cb[1 + cc][0] != 0.0 for cc in listed if cc < NCOMP)
                if not applies:
                    continue
                op = m.get('operation', 'replace')
                nonreplace = nonreplace or op != 'replace'
                for cc in range(NCOMP):
                    if cc in listed:
                        comp[cc] = apply_op(op, comp[cc], cb[1 + cc][0])
                    elif op == 'replace':
                        comp[cc] = 0.0
        tol = 1e-12 if line_feature else 0.0
        gotT = blocks['W'][0][0]
        if not (gotT == T or (tol and rel_close(gotT, T, tol))):
            V.violation('fold-of-operations:temperature%s' % (':line-feature' if line_feature else ''), dict(detail, got=gotT, expected=T, background=bg[0][0]))
        for cc in range(NCOMP):
            g = blocks['W'][1 + cc][0]
            if not (g == comp[cc] or (tol and rel_close(g, comp[cc], tol, 1e-15))):
                V.violation('fold-of-operations:composition%s' % (':line-feature' if line_feature else ''), dict(detail, composition=cc, got=g, expected=comp[cc]))
        # grains: no covering feature with a grains model -> as the background
        if not any(covers[i] and feats[i].get('grains models') for i in range(n)):
            for gi in (1 + NCOMP, 2 + NCOMP):
                if not core.same_bits(blocks['W'][gi], bg[gi]) and not any(covers[i] and feats[i]['model'] in ('subducting plate', 'fault') for i in range(n)):
                    V.violation('grains-changed-by-features-without-grains-models', dict(detail, got=blocks['W'][gi]))
        if ncover >= 2 and nonreplace:
            V.nontrivial((sid, pt, 'fold'))
    V.sample({'stack': sid, 'features': [(f['model'], [m.get('operation', 'replace') for m in f.get('temperature models', []) + f.get('composition models', [])]) for f in feats],
              'point': t['plan'][0][0]}, limit=4)


def main(tier, seed, replay):
    core.build('asan')
    rng = random.Random(seed * 22091 + 2)
    V = core.Verdict(PID, tier, seed)
    V.coverage['rule'] = ('stacks of 2-6 overlapping features of every type; per stack the world W, the empty world, every single-feature world, every single-model world (replace, and add for temperature), and '
                          'deletion/move variants, all queried at 40 points: tag = tag of the last covering feature, W minus / with moved non-covering features answers bit-identically, W = fold over covering features in '
                          'file order of op(value so far, isolated model value); the property lists of 70 % of the stacks are in shuffled order (grains in front of temperature and compositions); non-trivial = point covered by >= 2 features with >= 1 non-replace operation, or a deleted/moved non-covering feature positioned before a covering one')
    nstacks = 100 if tier == 'quick' else 3000
    jobs = []
    for i in range(nstacks):
        jobs.append(build_stack_case(random.Random(rng.getrandbits(48)), 's%d' % i, tier))
    core.run_cases('asan', [j[0] for j in jobs], PID, per_case_timeout=120)
    for (c, t) in jobs:
        check_stack(V, c, t)
    return V.finish(floor_nontrivial=300 if tier == 'quick' else 9000, floor_evaluations=2000)
