"""C12 - malformed or inconsistent input is rejected by an exception, never by a crash (DESIGN.md C12)."""
import copy
import json
import os
import random
import shutil
import subprocess

from . import core, corpus, worldgen as wg
from .common import ok, vals

PID = 'C12'
BATTERY_PROPS = '1,0,0;2,0,0;2,1,0;3,0,2;5,0,0;4,0,0'


# ------------------------------------------------------------------------------------------ the schema the library emits
def emitted_schema():
    d = os.path.join(core.WORK, PID + '_schema')
    shutil.rmtree(d, ignore_errors=True)
    os.makedirs(d)
    wb = os.path.join(d, 'minimal.wb')
    with open(wb, 'w') as f:
        f.write('{"version":"1.1","features":[]}')
    p = subprocess.run([core.exe('asan')], input='world\t1\t1\t1\t0\t%s/\t%s\n' % (d, wb), stdout=subprocess.PIPE, stderr=subprocess.PIPE, text=True, env=core.san_env('asan'))
    path = os.path.join(d, 'world_builder_declarations.schema.json')
    if not os.path.exists(path):
        raise core.Harness('the library did not emit its schema: %s %s' % (p.stdout[-300:], p.stderr[-300:]))
    with open(path) as f:
        return json.load(f)


NUMBERS_ADV = [0, 0.0, -0.0, 1, -1, 0.5, 2, 10, 100.0, 1e5, 1e6, -1e5, 1e-300, 1e300, -1e300, 1e308, 360.0, 180.0, 90.0, -90.0, 45.0, 1e-8]
NUMBERS_NONFINITE = [float('nan'), float('inf'), float('-inf')]


class Gen(object):
    def __init__(self, rng, schema, allow_nonfinite, max_depth=9):
        self.rng = rng
        self.schema = schema
        self.nonfinite = allow_nonfinite
        self.max_depth = max_depth
        self.budget = 400

    def number(self, default=None):
        r = self.rng.random()
        if self.nonfinite and r < 0.03:
            return self.rng.choice(NUMBERS_NONFINITE)
        if r < 0.35:
            return self.rng.choice(NUMBERS_ADV)
        if r < 0.5 and isinstance(default, (int, float)) and default == default:
            return default
        if r < 0.8:
            return wg.R(self.rng.uniform(-2e5, 8e5))
        return wg.R(self.rng.uniform(-200, 400))

    def gen(self, s, depth, key=''):
        self.budget -= 1
        rng = self.rng
        if 'oneOf' in s or 'anyOf' in s:
            alts = s.get('oneOf') or s.get('anyOf')
            return self.gen(rng.choice(alts), depth, key)
        t = s.get('type')
        if t == 'object':
            out = {}
            props = s.get('properties', {})
            req = s.get('required') or []
            for k, v in props.items():
                p_in = 0.45 if not k.endswith('models') and k not in ('sections', 'segments') else 0.35
                if k == 'coordinates' and depth <= 3:
                    p_in = 0.93        # not required by the schema, required by the code: mostly present so that more of the code is reached
                if k in req or (depth < self.max_depth and self.budget > 0 and rng.random() < p_in):
                    out[k] = self.gen(v, depth + 1, k)
            return out
        if t == 'array':
            lo = s.get('minItems', 0) or 0
            hi = s.get('maxItems', lo + 3)
            hi = max(lo, min(hi, lo + 3))
            if depth >= self.max_depth or self.budget <= 0:
                n = lo
            else:
                n = rng.choice([lo, lo, min(hi, lo + 1), min(hi, lo + 2), hi])
                if key in ('coordinates',) and rng.random() < 0.6:
                    n = min(max(n, rng.choice([2, 3, 4])), s.get('maxItems', 10))
            return [self.gen(s['items'], depth + 1, key) for _ in range(n)]
        if t == 'number':
            return self.number(s.get('default value'))
        if t == 'integer':
            return rng.choice([0, 0, 1, 1, 2, 3, 5, 100, 2 ** 31 - 1])
        if t == 'boolean':
            return rng.random() < 0.5
        if t == 'string':
            if s.get('enum'):
                return rng.choice(s['enum'])
            if key == 'model':
                return s.get('default value') or 'x'
            d = s.get('default value')
            if key == 'operation':
                return rng.choice(['replace', 'add', 'subtract', 'replace defined only'])
            if key in ('reference model name',):
                return rng.choice(['half space model', 'plate model', 'x', ''])
            if key == 'lithology':
                return rng.choice(['sediment', 'MORB', 'gabbro', 'peridotite', 'x'])
            if key == 'interpolation':
                return rng.choice(['global', 'global', 'continuous monotone spline', 'continuous monotone spline', 'none', 'linear', 'monotone spline', 'x'])
            if key == 'depth method':
                return rng.choice(['starting point', 'begin segment', 'begin at end segment', 'continuous'])
            return d if (d and rng.random() < 0.7) else rng.choice(['', 'a', 'name'])
        return None

    def document(self):
        s = self.schema
        doc = {'version': '1.1'}
        props = s['properties']
        for k, v in props.items():
            if k in ('version', 'features', '$schema'):
                continue
            if self.rng.random() < 0.25:
                doc[k] = self.gen(v, 1, k)
        feats = props['features']['items']
        alts = feats.get('oneOf') or feats.get('anyOf')
        n = self.rng.choice([1, 1, 1, 2, 3])
        doc['features'] = []
        for _ in range(n):
            self.budget = 300
            alt = self.rng.choice(alts)
            f = self.gen(alt, 2, 'features')
            if self.rng.random() < 0.65:
                self.repair(f, alt)
            doc['features'].append(f)
        if 'interpolation' in doc and self.rng.random() < 0.9:
            doc['interpolation'] = 'continuous monotone spline'
        return doc

    def repair(self, f, alt):
        """make a generated feature pass the obvious semantic checks so that deeper code is reached: schema-valid either way"""
        rng = self.rng
        props = alt.get('properties', {})
        if 'interpolation' in f:
            f['interpolation'] = rng.choice(['global', 'continuous monotone spline'])
        if 'coordinates' not in f:
            f['coordinates'] = [[self.number(), self.number()] for _ in range(rng.choice([1, 2, 3, 4]))]
        m = f.get('model')
        if m == 'plume':
            n = len(f['coordinates'])
            for k in ('cross section depths', 'semi-major axis', 'eccentricity', 'rotation angles'):
                cur = f.get(k)
                if not isinstance(cur, list):
                    cur = []
                while len(cur) < n:
                    cur.append(self.number())
                f[k] = cur[:n]
            if rng.random() < 0.7:
                f['cross section depths'] = sorted(abs(x) if isinstance(x, (int, float)) and x == x else 1.0 for x in f['cross section depths'])
                f['cross section depths'] = [d + 1000.0 * i for i, d in enumerate(f['cross section depths'])]
        if m in ('subducting plate', 'fault'):
            if 'dip point' not in f:
                f['dip point'] = [self.number(), self.number()]
            if not f.get('segments') and 'segments' in props:
                self.budget = 200
                f['segments'] = [self.gen(props['segments']['items'], 4, 'segments') for _ in range(rng.choice([1, 1, 2]))]
            if rng.random() < 0.6:
                for sgm in f.get('segments', []):
                    if isinstance(sgm, dict):
                        sgm['length'] = abs(sgm.get('length', 1e5)) if isinstance(sgm.get('length'), (int, float)) and sgm.get('length') == sgm.get('length') else 1e5
                        sgm['angle'] = [rng.uniform(1, 179)]
                        sgm['thickness'] = [rng.choice([1e4, 1e5, 0.0, 5e4])]


SIBLINGS = [  # (model selector, list keys that must have equal lengths)
    ('plume', ['coordinates', 'cross section depths', 'semi-major axis', 'eccentricity', 'rotation angles']),
    ('gaussian', ['depths', 'centerline temperatures', 'gaussian sigmas']),
]


def sibling_mismatch(doc):
    """-> description of a sibling-list length inconsistency the documentation forbids, or None.
    Only models that are certainly instantiated are judged: every model of an area feature or plume, the plume's own lists, and
    for slabs/faults the models written directly into a segment (feature or section level models of a line feature are only
    parsed when some segment inherits them)."""
    found = []

    def check_model(o):
        m = o.get('model')
        if m == 'gaussian':
            keys = ['depths', 'centerline temperatures', 'gaussian sigmas']
            lens = {k: len(o[k]) for k in keys if isinstance(o.get(k), list)}
            full = {k: lens.get(k, 1) for k in keys}
            if len(set(full.values())) > 1:
                found.append((m, full))
        if isinstance(o.get('compositions'), list) and m in ('uniform', 'random', 'smooth', 'random uniform distribution', 'random uniform distribution deflected'):
            n = len(o['compositions'])
            for k in ('fractions', 'grain sizes', 'normalize grain sizes', 'deflections', 'rotation matrices', 'Euler angles z-x-z', 'top fractions', 'bottom fractions', 'center fractions', 'side fractions'):
                if isinstance(o.get(k), list) and len(o[k]) != n and n > 0:
                    found.append((m, {'compositions': n, k: len(o[k])}))
            if m == 'random':
                for k in ('min value', 'max value'):       # one shared value or one per composition
                    if isinstance(o.get(k), list) and len(o[k]) not in (1, n) and n > 0:
                        found.append((m, {'compositions': n, k: len(o[k])}))

    def models_of(o):
        for k, v in o.items():
            if k.endswith(' models') and isinstance(v, list):
                for mo in v:
                    if isinstance(mo, dict):
                        check_model(mo)

    for f in doc.get('features', []):
        if not isinstance(f, dict):
            continue
        m = f.get('model')
        if m == 'plume':
            keys = ['coordinates', 'cross section depths', 'semi-major axis', 'eccentricity', 'rotation angles']
            full = {k: (len(f[k]) if isinstance(f.get(k), list) else 1) for k in keys}
            if len(set(full.values())) > 1:
                found.append(('plume', full))
        if m in ('continental plate', 'oceanic plate', 'mantle layer', 'plume'):
            models_of(f)
        elif m in ('subducting plate', 'fault'):
            for sgm in (f.get('segments') or []):
                if isinstance(sgm, dict):
                    models_of(sgm)
    return found[0] if found else None


SIBLINGS_EXACT = ('fractions', 'grain sizes', 'normalize grain sizes', 'deflections', 'rotation matrices', 'Euler angles z-x-z', 'top fractions', 'bottom fractions',
                  'center fractions', 'side fractions')
SIBLINGS_ONE_OR_N = ('min value', 'max value')


def mutate_sibling(rng, doc):
    """change the length of one list that must match its sibling lists (models of area features and plumes, the plume's own lists, the
    gaussian lists) -> (mutated doc, class) or (None, None)"""
    d = copy.deepcopy(doc)
    cands = []
    for f in d.get('features', []):
        ft = f.get('model')
        if ft == 'plume':
            for k in ('cross section depths', 'semi-major axis', 'eccentricity', 'rotation angles'):
                if isinstance(f.get(k), list) and len(f[k]) >= 2:
                    cands.append((f, k, 'plume', None))
        if ft == 'subducting plate':
            for mo in f.get('temperature models', []) or []:
                if isinstance(mo, dict) and isinstance(mo.get('ridge coordinates'), list) and isinstance(mo.get('spreading velocity'), (int, float)):
                    npts = sum(len(r) for r in mo['ridge coordinates'] if isinstance(r, list))
                    if npts >= 2:
                        cands.append((mo, 'spreading velocity', mo.get('model'), npts))
        if ft not in ('continental plate', 'oceanic plate', 'mantle layer', 'plume'):
            continue
        for kk, v in f.items():
            if kk.endswith(' models') and isinstance(v, list):
                for mo in v:
                    if not isinstance(mo, dict):
                        continue
                    if mo.get('model') == 'gaussian':
                        for k in ('depths', 'centerline temperatures', 'gaussian sigmas'):
                            if isinstance(mo.get(k), list) and len(mo[k]) >= 2:
                                cands.append((mo, k, 'gaussian', None))
                    if isinstance(mo.get('ridge coordinates'), list) and isinstance(mo.get('spreading velocity'), (int, float)):
                        npts = sum(len(r) for r in mo['ridge coordinates'] if isinstance(r, list))
                        if npts >= 2:
                            cands.append((mo, 'spreading velocity', mo.get('model'), npts))
                    if isinstance(mo.get('compositions'), list) and mo['compositions']:
                        n = len(mo['compositions'])
                        for k in SIBLINGS_EXACT:
                            if isinstance(mo.get(k), list) and len(mo[k]) == n:
                                cands.append((mo, k, mo.get('model'), n))
                        for k in SIBLINGS_ONE_OR_N:
                            if isinstance(mo.get(k), list) and n >= 2:
                                cands.append((mo, k, mo.get('model'), n))
    if not cands:
        return None, None
    o, k, mname, n = rng.choice(cands)
    if k == 'spreading velocity':
        # one value per ridge coordinate is the list form: give one too few or one too many (but not exactly one, which is valid)
        v = o[k]
        m = n + 1 if (n - 1 <= 1 or rng.random() < 0.5) else n - 1
        o[k] = [[0, [[v] * m]]]
        return d, '%s:%s' % (mname, k)
    lst = o[k]
    if k in SIBLINGS_ONE_OR_N:
        # neither one nor n entries
        target = n + 1 if (n == 2 or rng.random() < 0.5) else rng.randint(2, n - 1)
        while len(lst) < target:
            lst.append(copy.deepcopy(lst[-1]))
        del lst[target:]
    elif rng.random() < 0.5 and len(lst) >= 2:
        del lst[-1]
    else:
        lst.append(copy.deepcopy(lst[-1]))
    return d, '%s:%s' % (mname, k)


def huge_coordinates(doc):
    found = []

    def walk(o, in_coord):
        if isinstance(o, dict):
            for k, v in o.items():
                walk(v, in_coord or k in ('coordinates', 'min depth', 'max depth'))
        elif isinstance(o, list):
            for v in o:
                walk(v, in_coord)
        elif in_coord and isinstance(o, float) and (o != o or abs(o) >= 1e150):
            found.append(o)
    walk(doc, False)
    return bool(found)


def mutate_valid(rng, doc):
    """single fault mutations that violate the published schema -> (mutated doc, class)"""
    d = copy.deepcopy(doc)
    objs = []

    def walk(o, path):
        if isinstance(o, dict):
            objs.append((o, path))
            for k, v in o.items():
                walk(v, path + [k])
        elif isinstance(o, list):
            for i, v in enumerate(o):
                walk(v, path + [i])
    walk(d, [])
    kind = rng.choice(['unknown-key', 'wrong-type', 'missing-required', 'bad-enum', 'wrong-version', 'bad-model-name', 'unsupported-option'])
    if kind == 'unsupported-option':
        # option values the schema cannot exclude (free strings) but the documentation lists the supported values of
        cands = []
        feats = [f for f in d.get('features', []) if isinstance(f, dict)]
        if any(f.get('interpolation', 'global') == 'global' for f in feats):
            cands.append((d, 'interpolation', ['linear', 'monotone spline', 'none', 'cubic'], 'world'))
        for f in feats:
            cands.append((f, 'interpolation', ['linear', 'monotone spline', 'none', 'Global'], 'feature'))
        for (o, p) in objs:
            if o.get('model') == 'tian water content':
                cands.append((o, 'lithology', ['granite', 'morb', 'Peridotite', ''], 'model'))
            if o.get('model') == 'mass conserving':
                cands.append((o, 'reference model name', ['half space', 'plate', 'Plate model', ''], 'model'))
        if not cands:
            return None, kind
        o, k, values, where = rng.choice(cands)
        o[k] = rng.choice(values)
        return d, '%s:%s:%s' % (kind, k, where)
    if kind == 'wrong-version':
        d['version'] = rng.choice(['0.1', '1.0', '2.0', '', '1.1.0', 'x', '1.10', '1.12', '1.1x', '1.1-beta', '1.15.3', ' 1.1', '1.1 ', '01.1', '1.1\n', '1,1', '1.01'])
        return d, kind
    if kind == 'unknown-key':
        o, path = rng.choice(objs)
        key = rng.choice(['bogus key', 'Model', 'coordinate', 'min_depth', 'temperature model'])
        if key in o:
            return None, kind
        o[key] = rng.choice([1, 'x', [], {}])
        where = '/'.join('*' if isinstance(x, int) else str(x) for x in path)
        return d, kind + ':' + (where or 'root')
    if kind == 'missing-required':
        cands = [(o, k) for (o, p) in objs for k in ('model', 'coordinates', 'features', 'version', 'compositions') if k in o]
        if not cands:
            return None, kind
        o, k = rng.choice(cands)
        if k == 'coordinates' and o.get('model') not in wg.ALL_TYPES:
            return None, kind
        del o[k]
        return d, kind + ':' + k
    if kind == 'bad-model-name':
        cands = [o for (o, p) in objs if 'model' in o]
        if not cands:
            return None, kind
        rng.choice(cands)['model'] = rng.choice(['no such model', 'Uniform ', 'continental plates'])
        return d, kind
    if kind == 'bad-enum':
        cands = [o for (o, p) in objs if 'operation' in o]
        if not cands:
            return None, kind
        rng.choice(cands)['operation'] = rng.choice(['multiply', 'Replace', ''])
        return d, kind
    # wrong primitive type
    cands = []
    for (o, p) in objs:
        for k, v in o.items():
            if k in ('temperature', 'min depth', 'max depth', 'top temperature', 'length', 'name', 'model', 'coordinates', 'compositions', 'version', 'potential mantle temperature'):
                cands.append((o, k))
    if not cands:
        return None, kind
    o, k = rng.choice(cands)
    v = o[k]
    if isinstance(v, (int, float)) and not isinstance(v, bool):
        o[k] = rng.choice(['abc', [v, v, v, [v]], {'a': 1}, True, None])
    elif isinstance(v, str):
        o[k] = rng.choice([1, [1], {'a': 1}, None])
    elif isinstance(v, list):
        o[k] = rng.choice([1.5, 'abc', {'a': 1}, None])
    else:
        return None, kind
    return d, 'wrong-type:' + k


def formatting_variant(rng, text, doc):
    """same document, different bytes: whitespace, comments, key order"""
    kind = rng.choice(['compact', 'indent', 'comments', 'key-order'])
    if kind == 'compact':
        return json.dumps(doc, separators=(',', ':')), kind
    if kind == 'indent':
        return json.dumps(doc, indent=rng.choice([0, 3, 8])).replace('\n', '\n \t'), kind
    if kind == 'comments':
        lines = json.dumps(doc, indent=1).split('\n')
        out = ['// a leading comment', '/* a block', '   comment */']
        for l in lines:
            out.append(l + ('  // trailing comment "with a quote' if rng.random() < 0.2 else ''))
            if rng.random() < 0.1:
                out.append('/* { "version": "9.9" } */')
        return '\n'.join(out), kind

    def shuffle(o):
        if isinstance(o, dict):
            items = list(o.items())
            rng.shuffle(items)
            return {k: shuffle(v) for k, v in items}
        if isinstance(o, list):
            return [shuffle(v) for v in o]
        return o
    return json.dumps(shuffle(doc), indent=1), kind


def battery(c, wid, ctx_guess):
    idx = []
    pts = [(0.0, 0.0, 0.0, 0.0), (1e5, 1e5, 9e5, 1e5), (-2e5, 3e5, 6.2e6, 1.7e5), (5e5, 5e5, -1e5, 1e5), (6.3e6, 1e5, 1e5, 7e4), (1e3, -1e3, 6.371e6, 0.0), (0.0, 0.0, 6.0e6, 3.71e5), (3e5, 4e5, 5e5, 2.5e5),
           (1.2e6, -8e5, 1e6, 5e5), (-6.0e6, 1.0, 0.0, 3.7e5)]
    for (x, y, z, d) in pts:
        idx.append(c.add('q3', wid, core.hx(x), core.hx(y), core.hx(z), core.hx(d), BATTERY_PROPS))
    for (x, z, d) in ((1e5, 9e5, 1e5), (0.0, 0.0, 0.0), (6.2e6, 1e5, 1e5)):
        idx.append(c.add('q2', wid, core.hx(x), core.hx(z), core.hx(d), BATTERY_PROPS))
    return idx


def crash_key(case, c):
    return 'crash:%s:%s' % (c['kind'], c['frame'])


def main(tier, seed, replay):
    core.build('asan')
    rng = random.Random(seed * 2999 + 12)
    V = core.Verdict(PID, tier, seed)
    V.coverage['rule'] = ('(b) documents generated from the JSON schema the built library itself emits, biased to the minimum the schema allows and to adversarial numbers (0, negatives, 1e+-300, NaN/Infinity literals) '
                          'and list lengths; (c) single-fault mutations of valid files that violate the published schema (unknown key, wrong primitive type, missing required key, bad enum/model name, wrong version) must throw; '
                          '(e) valid generated worlds with one list that must match its sibling lists (per-composition lists of every model, min/max value of the random composition, plume and gaussian lists) made one too short or too long must throw; (d) formatting variants of valid files (whitespace, comments, key order) must answer bit-identically; every construction followed by a fixed battery of 13 queries; outcome must be '
                          '"constructed" or std::exception with a message, never a sanitizer report, signal or hang; thorough: libFuzzer on raw bytes and valgrind memcheck replay; non-trivial = schema-valid documents '
                          'that reach the semantic code (constructed, or rejected by a semantic check)')
    quick = tier == 'quick'
    schema = emitted_schema()
    n_gen, n_mut, n_fmt = (1500, 600, 100) if quick else (40000, 12000, 2000)
    cases = []
    plan = []
    for i in range(n_gen):
        g = Gen(random.Random(rng.getrandbits(48)), schema, allow_nonfinite=(i % 3 == 0))
        doc = g.document()
        fn = 'g%d.wb' % i
        c = core.Case('g%d' % i, files={fn: json.dumps(doc, indent=1, allow_nan=True)})
        c.add('world', 1, 1, 0, 0, '-', core.workfile(PID, fn))
        idx = battery(c, 1, None)
        cases.append(c)
        plan.append(('gen', c, doc, fn, idx, sibling_mismatch(doc)))
    # valid bases for mutation / formatting: generated worlds of the ordinary generator and corpus files
    files = [p for p in corpus.world_files()]
    rng.shuffle(files)
    descs = [d for d in (corpus.describe(p) for p in files) if d]
    for i in range(n_mut):
        wrng = random.Random(rng.getrandbits(48))
        if wrng.random() < 0.5 and descs:
            base = copy.deepcopy(wrng.choice(descs)['doc'])
        else:
            base = wg.gen_world(wrng, {'nfeatures': (1, 3)})['json']
        m, kind = mutate_valid(wrng, base)
        if m is None:
            continue
        fn = 'm%d.wb' % i
        c = core.Case('m%d' % i, files={fn: json.dumps(m, indent=1, allow_nan=True)})
        c.add('world', 1, 1, 0, 0, '-', core.workfile(PID, fn))
        cases.append(c)
        plan.append(('mut', c, m, fn, kind, None))
    for i in range(n_fmt):
        wrng = random.Random(rng.getrandbits(48))
        w = wg.gen_world(wrng, {'nfeatures': (1, 4)})
        doc = w['json']
        text0 = wg.dumps(doc)
        text1, kind = formatting_variant(wrng, text0, doc)
        c = core.Case('f%d' % i, files={'f%d_a.wb' % i: text0, 'f%d_b.wb' % i: text1})
        c.add('world', 1, 1, 0, 0, '-', core.workfile(PID, 'f%d_a.wb' % i))
        c.add('world', 2, 1, 0, 0, '-', core.workfile(PID, 'f%d_b.wb' % i))
        ctx = w['truth']['ctx']
        qi = []
        for (sx, sy, d) in wg.sample_points(wrng, w, 15, p_inside=0.8):
            x, y, z = ctx.point(sx, sy, d)
            qi.append((c.add('q3', 1, core.hx(x), core.hx(y), core.hx(z), core.hx(d), BATTERY_PROPS), c.add('q3', 2, core.hx(x), core.hx(y), core.hx(z), core.hx(d), BATTERY_PROPS)))
        cases.append(c)
        plan.append(('fmt', c, doc, 'f%d' % i, kind, qi))
    # (e) valid worlds with one sibling list made too short or too long
    n_sib = 300 if quick else 6000
    for i in range(n_sib):
        wrng = random.Random(rng.getrandbits(48))
        wg.EXTRA['random_composition'] = 0.6
        try:
            base = wg.gen_world(wrng, {'nfeatures': (1, 3), 'types': ['continental plate', 'oceanic plate', 'mantle layer', 'plume'], 'random_models': wrng.random() < 0.5,
                                       'p_grains': 0.7, 'p_composition': 0.9, 'ncomp': 4})['json']
        finally:
            wg.EXTRA['random_composition'] = 0.0
        m, cls = mutate_sibling(wrng, base)
        if m is None:
            continue
        fn = 's%d.wb' % i
        c = core.Case('s%d' % i, files={fn: wg.dumps(m)})
        c.add('world', 1, 1, 0, 0, '-', core.workfile(PID, fn))
        idx = battery(c, 1, None)
        cases.append(c)
        plan.append(('sib', c, m, fn, cls, idx))
    core.run_cases('asan', cases, PID, per_case_timeout=30)
    # second opinion on the mutated documents: python jsonschema against the emitted schema (tooling interpreter); a mutation that
    # the published schema itself allows (e.g. an extra key where the schema has no additionalProperties:false) is not a violation
    second = {}
    try:
        sdir = os.path.join(core.WORK, PID + '_schema')
        listing = [core.workfile(PID, it[3]) for it in plan if it[0] == 'mut']
        with open(os.path.join(sdir, 'list.txt'), 'w') as f:
            f.write('\n'.join(listing))
        pr = subprocess.run(['python3-vt', os.path.join(core.ROOT, 'tools', 'validate_schema.py'), os.path.join(sdir, 'world_builder_declarations.schema.json'), os.path.join(sdir, 'list.txt')],
                            stdout=subprocess.PIPE, stderr=subprocess.PIPE, text=True, timeout=1200)
        lines = pr.stdout.strip().split('\n')
        if len(lines) == len(listing):
            second = dict(zip(listing, lines))
    except Exception:
        second = {}
    V.coverage['jsonschema_second_opinion'] = 'used' if second else 'not available (mutation classes trusted as they are)'

    outcomes = {'constructed': 0, 'rejected': 0}
    reject_msgs = {}
    for item in plan:
        kind, c = item[0], item[1]
        if kind == 'gen':
            _k, c, doc, fn, idx, sib = item
            V.count()
            if c.crash:
                at = c.crash['at']
                phase = 'construction' if at == 0 else 'query'
                key = 'crash:%s:%s:%s' % (phase, c.crash['kind'], c.crash['frame'])
                if 'Delaunator' in c.crash['frame'] and huge_coordinates(doc):
                    key += ':coordinates>=1e150-or-non-finite'
                V.violation(key, {'file': fn, 'command': c.cmds[at] if at < len(c.cmds) else None, 'sanitizer_log': c.crash.get('log', '')[:2500], 'document': doc})
                continue
            r0 = c.results[0]
            if r0[0] == 'ok':
                outcomes['constructed'] += 1
                V.nontrivial(fn)
                if sib:
                    V.violation('accepts:inconsistent-list-lengths:%s' % sib[0], {'file': fn, 'lengths': sib[1], 'document': doc})
                cs = doc.get('coordinate system') or {}
                if cs.get('depth method') == 'continuous':
                    V.violation('accepts:spherical.depth-method=continuous', {'file': fn, 'document': doc})
                for i in idx:
                    r = c.results[i]
                    if r[0] == 'exx':
                        V.violation('query-ends-with-a-non-standard-exception', {'file': fn, 'cmd': c.cmds[i], 'document': doc})
                    if r[0] == 'ex' and r[1] == '<EMPTY>':
                        V.violation('exception-without-message:query', {'file': fn, 'cmd': c.cmds[i]})
            elif r0[0] == 'ex':
                outcomes['rejected'] += 1
                msg = r0[1]
                if msg == '<EMPTY>':
                    V.violation('exception-without-message:construction', {'file': fn, 'document': doc})
                short = msg[:60]
                reject_msgs[short] = reject_msgs.get(short, 0) + 1
                if 'AssertThrow' in msg and 'schema' not in msg.lower():
                    V.nontrivial(fn)
            elif r0[0] == 'exx':
                V.violation('construction-ends-with-a-non-standard-exception', {'file': fn, 'document': doc})
        elif kind == 'sib':
            _k, c, m, fn, cls, idx = item
            V.count()
            if c.crash:
                at = c.crash['at']
                V.violation('crash:%s:%s:%s' % ('construction' if at == 0 else 'query', c.crash['kind'], c.crash['frame']), {'file': fn, 'class': cls, 'sanitizer_log': c.crash.get('log', '')[:2500], 'document': m})
                continue
            if c.results[0][0] == 'ok':
                V.violation('accepts:inconsistent-list-lengths:%s' % cls, {'file': fn, 'document': m})
            else:
                V.nontrivial(fn)
                V.coverage['sibling_list_mutations_rejected'] = V.coverage.get('sibling_list_mutations_rejected', 0) + 1
        elif kind == 'mut':
            _k, c, m, fn, cls, _ = item
            V.count()
            if c.crash:
                V.violation('crash:construction:%s:%s' % (c.crash['kind'], c.crash['frame']), {'file': fn, 'class': cls, 'sanitizer_log': c.crash.get('log', '')[:2500], 'document': m})
                continue
            r0 = c.results[0]
            verdict2 = second.get(core.workfile(PID, fn))
            if r0[0] == 'ok':
                if verdict2 == 'valid' and cls != 'wrong-version' and not cls.startswith('unsupported-option'):      # checked by the library, not by the schema
                    V.coverage['mutations_the_published_schema_allows'] = V.coverage.get('mutations_the_published_schema_allows', 0) + 1
                else:
                    V.violation('schema-violation-accepted:%s' % cls, {'file': fn, 'class': cls, 'document': m, 'jsonschema': verdict2})
            else:
                V.nontrivial(fn)
        else:
            _k, c, doc, fid, cls, qi = item
            V.count()
            if c.crash:
                V.violation('crash:formatting-variant:%s:%s' % (c.crash['kind'], c.crash['frame']), {'file': fid, 'class': cls, 'sanitizer_log': c.crash.get('log', '')[:2500]})
                continue
            if c.results[0][0] != c.results[1][0]:
                V.violation('formatting-variant-changes-the-construction-outcome:%s' % cls, {'file': fid, 'a': c.results[0], 'b': c.results[1]})
                continue
            if c.results[0][0] != 'ok':
                continue
            for (a, b) in qi:
                ra, rb = c.results[a], c.results[b]
                if ra[0] != rb[0] or (ok(ra) and not core.same_bits(vals(ra), vals(rb))):
                    V.violation('formatting-variant-changes-an-answer:%s' % cls, {'file': fid, 'cmd': c.cmds[a], 'a': ra, 'b': rb})
                    break
            V.nontrivial(fid)
    if not quick or os.environ.get('C12_EXTRAS'):
        from . import fuzz_C12
        secs = int(os.environ.get('C12_FUZZ_SECONDS', '1500'))
        fuzz_C12.fuzz(V, seed, schema, secs, max(2, core.NCPU - 2), battery)
        # memcheck replay: documents that reached semantic code (constructed or semantically rejected), mutated and corpus files
        sel = [core.workfile(PID, it[3]) for it in plan if it[0] == 'gen' and not it[1].crash and it[1].results and it[1].results[0][0] in ('ok', 'ex')]
        rng.shuffle(sel)
        mem_files = sel[:int(os.environ.get('C12_MEMCHECK_FILES', '300'))] + [d['path'] for d in descs[:60]]
        fuzz_C12.memcheck(V, mem_files)
    V.coverage['generated_documents'] = outcomes
    V.coverage['most_common_rejections'] = sorted(reject_msgs.items(), key=lambda kv: -kv[1])[:12]
    V.sample({'generated_document': plan[0][2]}, limit=1)
    return V.finish(floor_nontrivial=500 if quick else 10000, floor_evaluations=1500)
