"""C19 - geometric kernels agree with their brute-force definitions (DESIGN.md C19)."""
import math
import random

from . import core, worldgen as wg
from .common import ok, vals, rel_close

PID = 'C19'
PI = math.pi


# ------------------------------------------------------------------ exact integer polygon oracle
def cross(ax, ay, bx, by, cx, cy):
    return (bx - ax) * (cy - ay) - (by - ay) * (cx - ax)


def on_segment(ax, ay, bx, by, px, py):
    return cross(ax, ay, bx, by, px, py) == 0 and min(ax, bx) <= px <= max(ax, bx) and min(ay, by) <= py <= max(ay, by)


def exact_contains(poly, px, py):
    """closed polygon, integer (or Fraction) arithmetic: 0 outside, 1 inside, 2 boundary"""
    n = len(poly)
    wn = 0
    for i in range(n):
        ax, ay = poly[i]
        bx, by = poly[(i + 1) % n]
        if on_segment(ax, ay, bx, by, px, py):
            return 2
        if ay <= py:
            if by > py and cross(ax, ay, bx, by, px, py) > 0:
                wn += 1
        elif by <= py and cross(ax, ay, bx, by, px, py) < 0:
            wn -= 1
    return 1 if wn != 0 else 0


def random_lattice_polygon(rng, n, size):
    """star shaped polygon with integer vertices; returns None if degenerate"""
    for _ in range(50):
        pts = wg.star_polygon(rng, size / 2.0, size / 2.0, size * 0.15, size * 0.5, n, clockwise=rng.random() < 0.5)
        ip = [(int(round(x)), int(round(y))) for x, y in pts]
        if len(set(ip)) != n:
            continue
        if simple(ip):
            return ip
    return None


def seg_intersect(a, b, c, d):
    def sg(v):
        return (v > 0) - (v < 0)
    d1 = sg(cross(a[0], a[1], b[0], b[1], c[0], c[1]))
    d2 = sg(cross(a[0], a[1], b[0], b[1], d[0], d[1]))
    d3 = sg(cross(c[0], c[1], d[0], d[1], a[0], a[1]))
    d4 = sg(cross(c[0], c[1], d[0], d[1], b[0], b[1]))
    if d1 * d2 < 0 and d3 * d4 < 0:
        return True
    return (d1 == 0 and on_segment(a[0], a[1], b[0], b[1], c[0], c[1])) or (d2 == 0 and on_segment(a[0], a[1], b[0], b[1], d[0], d[1])) or \
        (d3 == 0 and on_segment(c[0], c[1], d[0], d[1], a[0], a[1])) or (d4 == 0 and on_segment(c[0], c[1], d[0], d[1], b[0], b[1]))


def simple(p):
    n = len(p)
    for i in range(n):
        for j in range(i + 1, n):
            if j == i + 1 or (i == 0 and j == n - 1):
                # adjacent: must not fold back
                s = p[j] if j == i + 1 else p[0]
                a = p[i] if j == i + 1 else p[1]
                b = p[(j + 1) % n] if j == i + 1 else p[n - 1]
                if cross(s[0], s[1], a[0], a[1], b[0], b[1]) == 0 and (a[0] - s[0]) * (b[0] - s[0]) + (a[1] - s[1]) * (b[1] - s[1]) > 0:
                    return False
                continue
            if seg_intersect(p[i], p[(i + 1) % n], p[j], p[(j + 1) % n]):
                return False
    return True


# ------------------------------------------------------------------ main
def main(tier, seed, replay):
    core.build('asan')
    rng = random.Random(seed * 15485863 + 19)
    V = core.Verdict(PID, tier, seed)
    V.coverage['rule'] = ('kd-tree vs brute-force minimum (random, lattice and clustered sets); polygon test vs integer-arithmetic closed-polygon oracle (exhaustive small lattices in-process + random '
                          'lattice polygons up to 12 vertices, boundary included, cartesian and spherical tags, +-2pi alias for interior points); Bezier trench curve: passes through its coordinates, closest point '
                          'lies on the curve at the reported parameter and is not beaten by a brute-force search over the curve; coordinate conversions round-trip; great-circle distance vs atan2 form over the whole sphere; '
                          'non-trivial = distinct kernel cases that exercise a boundary/tie/alias/bend/obtuse-pair situation')
    quick = tier == 'quick'
    cases = []
    plans = []

    # ---- kd trees
    nsets = 600 if quick else 6000
    for i in range(nsets):
        kind = rng.choice(['random', 'lattice', 'cluster', 'line'])
        n = rng.choice([1, 2, 3, 5, 8, 17, 50, 200]) if rng.random() < 0.6 else rng.randint(1, 120)
        pts = []
        for _ in range(n):
            if kind == 'random':
                pts.append((rng.uniform(-1e6, 1e6), rng.uniform(-1e6, 1e6)))
            elif kind == 'lattice':
                pts.append((float(rng.randint(0, 6)), float(rng.randint(0, 6))))
            elif kind == 'cluster':
                pts.append((rng.gauss(0, 1) * rng.choice([1, 1e-6, 1e3]), rng.gauss(0, 1)))
            else:
                pts.append((float(rng.randint(-5, 5)), 2.0))
        c = core.Case('kd%d' % i)
        flat = []
        for p in pts:
            flat += [core.hx(p[0]), core.hx(p[1])]
        c.add('kd_new', 1, *flat)
        qs = []
        for _ in range(30):
            r = rng.random()
            if r < 0.3:
                q = rng.choice(pts)
            elif kind == 'lattice' or kind == 'line':
                q = (rng.randint(-2, 16) / 2.0, rng.randint(-2, 16) / 2.0)
            elif kind == 'random':
                q = (rng.uniform(-1.5e6, 1.5e6), rng.uniform(-1.5e6, 1.5e6))
            else:
                q = (rng.gauss(0, 2), rng.gauss(0, 2))
            qs.append((q, c.add('kd_q', 1, core.hx(q[0]), core.hx(q[1]))))
        cases.append(c)
        plans.append(('kd', c, pts, qs, kind))

    # ---- exhaustive polygon lattices (in-process oracle)
    lat = core.Case('lattice')
    lat_plan = []
    specs = [(4, 3, 1.0, 0.0, 0.0, 'c'), (4, 4, 1.0, 0.0, 0.0, 'c'), (3, 5, 1024.0, -4096.0, 2048.0, 'c'), (4, 3, 0.125, 3.0, -0.5, 's'), (3, 4, 0.25, -3.5, 0.25, 's')]
    if quick:
        for (L, nv, sc, ox, oy, cs) in specs:
            lat_plan.append(((L, nv, cs), lat.add('lattice', L, nv, core.hx(sc), core.hx(ox), core.hx(oy), 1, 0, cs)))
        cases.append(lat)
        plans.append(('lattice', lat, lat_plan))
    else:
        specs += [(4, 5, 1.0, -2.0, -2.0, 'c'), (5, 3, 1.0, 0.0, 0.0, 'c'), (5, 4, 2.0, 0.0, 0.0, 'c'), (5, 5, 1.0, 0.0, 0.0, 'c'), (4, 4, 0.0625, 3.0, 0.0, 's')]
        for (L, nv, sc, ox, oy, cs) in specs:
            stride = 16 if (L, nv) in ((5, 5), (5, 4), (4, 5)) else 1
            for phase in range(stride):
                lc = core.Case('lattice_%d_%d_%d' % (L, nv, phase))
                plans.append(('lattice', lc, [((L, nv, cs), lc.add('lattice', L, nv, core.hx(sc), core.hx(ox), core.hx(oy), stride, phase, cs))]))
                cases.append(lc)

    # ---- random lattice polygons
    npoly = 500 if quick else 6000
    for i in range(npoly):
        n = rng.randint(3, 12)
        size = rng.choice([8, 16, 32, 64])
        ip = random_lattice_polygon(rng, n, size)
        if ip is None:
            continue
        sph = rng.random() < 0.4
        scale = 2.0 ** rng.randint(-8, 12) if not sph else 2.0 ** rng.randint(-8, -6)
        ox = rng.choice([0.0, -1024.0, 4096.0]) if not sph else rng.choice([0.0, 3.0, -3.25, 1.5])
        oy = rng.choice([0.0, 512.0]) if not sph else rng.choice([0.0, -0.5, 0.25])
        c = core.Case('poly%d' % i)
        flat = []
        for (x, y) in ip:
            flat += [core.hx(ox + scale * x), core.hx(oy + scale * y)]
        qs = []
        for _ in range(60):
            r = rng.random()
            if r < 0.3:
                # on an edge (lattice points of the edge) or a vertex
                k = rng.randrange(n)
                a, b = ip[k], ip[(k + 1) % n]
                g = math.gcd(abs(b[0] - a[0]), abs(b[1] - a[1]))
                t = rng.randint(0, 2 * g)
                px2, py2 = 2 * a[0] + (b[0] - a[0]) * t // g, 2 * a[1] + (b[1] - a[1]) * t // g
                if ((b[0] - a[0]) * t) % g or ((b[1] - a[1]) * t) % g:
                    continue
            else:
                px2, py2 = rng.randint(-2, 2 * size + 2), rng.randint(-2, 2 * size + 2)
            expect = exact_contains([(2 * x, 2 * y) for x, y in ip], px2, py2)
            qx, qy = ox + scale * px2 / 2.0, oy + scale * py2 / 2.0
            alias = 0
            if sph and expect == 1 and rng.random() < 0.5:
                # interior by at least half a lattice step? use the alias only for points whose 4 half-step neighbours are inside too
                if all(exact_contains([(2 * x, 2 * y) for x, y in ip], px2 + dx, py2 + dy) == 1 for dx, dy in ((1, 0), (-1, 0), (0, 1), (0, -1))):
                    alias = -1 if qx > 0 else 1
                    qx = qx + alias * 2 * PI
            qs.append((expect, alias, (px2, py2), c.add('poly', 's' if sph else 'c', core.hx(qx), core.hx(qy), *flat)))
        cases.append(c)
        plans.append(('poly', c, ip, qs, sph))

    # ---- Bezier curves
    ncurves = 400 if quick else 8000
    for i in range(ncurves):
        sph = rng.random() < 0.35
        n = rng.randint(2, 6)
        wrap_q = False
        collinear = False
        if sph:
            # longitude conventions: inside (-pi,pi); across the date line (raw coordinates beyond +-pi on one side); wholly in the
            # 0..2pi resp. -2pi..0 convention. The World hands query longitudes over in (-pi,pi], so queries are wrapped there.
            conv = rng.choice(['plain', 'plain', 'dateline+', 'dateline-', '0..2pi', '-2pi..0'])
            lon0 = {'plain': rng.uniform(-2.5, 2.5), 'dateline+': rng.uniform(PI - 0.1, PI + 0.1), 'dateline-': rng.uniform(-PI - 0.1, -PI + 0.1),
                    '0..2pi': rng.uniform(PI + 0.3, 2 * PI - 0.3), '-2pi..0': rng.uniform(-2 * PI + 0.3, -PI - 0.3)}[conv]
            pts = wg.gen_trench(rng, None, lon0, rng.uniform(-0.9, 0.9), rng.uniform(0.05, 0.3), n, 58.0)
            reach = 0.04
            wrap_q = conv != 'plain' and rng.random() < 0.8
        else:
            pts = wg.gen_trench(rng, None, rng.uniform(-1e6, 1e6), rng.uniform(-1e6, 1e6), rng.uniform(3e5, 2e6), n, 58.0)
            reach = 3e5
            if n >= 3 and rng.random() < 0.3:
                # collinear coordinates on an oblique straight line, unevenly spaced: the curve is that line, and a query on the normal
                # through an interior coordinate has its foot exactly at the junction of two segments (parameter 1 of one, 0 of the next)
                collinear = True
                x0, y0 = rng.uniform(-5e5, 5e5), rng.uniform(-5e5, 5e5)
                ang = rng.uniform(0, 2 * PI)
                ex, ey = math.cos(ang), math.sin(ang)
                if rng.random() < 0.5:
                    ex, ey = rng.choice([(-3.0, -1.0), (2.0, 1.0), (1.0, -2.0), (-1.0, 3.0)])      # exactly representable direction
                    nrm = 1.0
                else:
                    nrm = 1.0
                ss = [0.0]
                for _ in range(n - 1):
                    ss.append(ss[-1] + rng.choice([5e4, 1e5, 1.5e5, 3e5, rng.uniform(3e4, 4e5)]))
                pts = [(wg.R(x0 + sk * ex / nrm), wg.R(y0 + sk * ey / nrm)) for sk in ss]
        c = core.Case('bez%d' % i)
        flat = []
        for p in pts:
            flat += [core.hx(p[0]), core.hx(p[1])]
        sysc = 's' if sph else 'c'
        c.add('bez_new', 1, sysc, *flat)
        ends = []
        for k in range(n - 1):
            ends.append((k, c.add('bez_eval', 1, k, core.hx(0.0)), c.add('bez_eval', 1, k, core.hx(1.0))))
        qs = []
        for _ in range(25):
            k = rng.randrange(n - 1)
            u = rng.uniform(0.0, 1.0)
            bx = pts[k][0] + u * (pts[k + 1][0] - pts[k][0])
            by = pts[k][1] + u * (pts[k + 1][1] - pts[k][1])
            a = rng.uniform(0, 2 * PI)
            r = rng.uniform(0, reach) if rng.random() < 0.8 else rng.uniform(0, reach * 0.01)
            q = (bx + r * math.cos(a), by + r * math.sin(a))
            if wrap_q:
                q = (math.atan2(math.sin(q[0]), math.cos(q[0])), q[1])
            i1 = c.add('bez_close', 1, sysc, core.hx(q[0]), core.hx(q[1]))
            i2 = c.add('bez_brute2', 1, sysc, core.hx(q[0]), core.hx(q[1]), 4000, n - 1)
            qs.append((q, i1, i2, 'collinear' if collinear else ''))
        if collinear:
            for _ in range(20):
                k = rng.randrange(1, n - 1)
                dx, dy = pts[-1][0] - pts[0][0], pts[-1][1] - pts[0][1]
                tt = rng.choice([-1, 1]) * rng.choice([rng.uniform(0.001, 1.0), 0.5, 0.25, 1.0])
                q = (pts[k][0] - dy * tt, pts[k][1] + dx * tt)
                i1 = c.add('bez_close', 1, sysc, core.hx(q[0]), core.hx(q[1]))
                i2 = c.add('bez_brute2', 1, sysc, core.hx(q[0]), core.hx(q[1]), 4000, n - 1)
                qs.append((q, i1, i2, 'collinear:on-the-normal-through-a-coordinate'))
        cases.append(c)
        plans.append(('bez', c, pts, ends, qs, sph))

    # ---- conversions and great circle distances
    conv = core.Case('conv', files={'sph.wb': '{"version":"1.1","coordinate system":{"model":"spherical","depth method":"starting point"},"features":[]}'})
    conv.add('world', 1, 1, 0, 0, '-', core.workfile(PID, 'sph.wb'))
    cplan = []
    for _ in range(400 if quick else 8000):
        r = rng.choice([1.0, 6371000.0, rng.uniform(1e3, 1e7)])
        lon = rng.uniform(-PI, PI) if rng.random() < 0.9 else rng.choice([0.0, PI / 2, -PI / 2, 3.0])
        lat = rng.uniform(-PI / 2, PI / 2) if rng.random() < 0.9 else rng.choice([0.0, 1.5, -1.5, 1.0])
        cplan.append(('s2c', (r, lon, lat), conv.add('s2c', core.hx(r), core.hx(lon), core.hx(lat))))
        x, y, z = (rng.uniform(-1e7, 1e7) for _ in range(3))
        cplan.append(('c2s', (x, y, z), conv.add('c2s', core.hx(x), core.hx(y), core.hx(z))))
    # special points of the conversion: the centre (all signed zeros), vectors whose squared norm underflows, the axes, the poles,
    # the antimeridian with y = +0 / -0
    specials = [(sx * 0.0, sy * 0.0, sz * 0.0) for sx in (1.0, -1.0) for sy in (1.0, -1.0) for sz in (1.0, -1.0)]
    for mag in (5e-324, 1e-300, 1e-200, 1e-170, 1e-160, 1e-150, 1e-30, 1.0, 6371000.0, 1e150):
        for d in ((1, 0, 0), (-1, 0, 0), (0, 1, 0), (0, -1, 0), (0, 0, 1), (0, 0, -1), (1, 1, 1), (-1, 1e-8, 0), (-1, -1e-8, 0), (1e-9, 0, 1), (-1, 0.0, 0.5), (-1, -0.0, 0.5)):
            specials.append(tuple(mag * t for t in d))
    for (x, y, z) in specials:
        cplan.append(('c2s', (x, y, z), conv.add('c2s', core.hx(x), core.hx(y), core.hx(z))))
    for _ in range(600 if quick else 12000):
        r = rng.choice([6371000.0, 1.0, rng.uniform(1e5, 7e6)])
        lon1, lat1 = rng.uniform(-PI, PI), math.asin(rng.uniform(-1, 1))
        mode = rng.random()
        if mode < 0.5:
            lon2, lat2 = rng.uniform(-PI, PI), math.asin(rng.uniform(-1, 1))
        elif mode < 0.8:
            lon2, lat2 = lon1 + rng.uniform(-0.05, 0.05), max(-1.57, min(1.57, lat1 + rng.uniform(-0.05, 0.05)))
        elif mode < 0.9:
            # exactly antipodal / identical (the cosine of the central angle rounds to just outside [-1,1])
            if rng.random() < 0.7:
                lon2, lat2 = (lon1 + PI if lon1 <= 0 else lon1 - PI), -lat1
            else:
                lon2, lat2 = lon1, lat1
        else:
            # nearly antipodal
            lon2, lat2 = lon1 + PI + rng.uniform(-0.05, 0.05), -lat1 + rng.uniform(-0.05, 0.05)
            lat2 = max(-1.57, min(1.57, lat2))
            if lon2 > PI:
                lon2 -= 2 * PI
        cplan.append(('gc', (r, lon1, lat1, lon2, lat2), conv.add('gcdist', 1, core.hx(r), core.hx(lon1), core.hx(lat1), core.hx(lon2), core.hx(lat2))))
    cases.append(conv)
    plans.append(('conv', conv, cplan))

    core.run_cases('asan', cases, PID, per_case_timeout=600 if not quick else 120)

    for plan in plans:
        c = plan[1]
        if c.crash:
            V.crash(c, plan[0])
            continue
        if plan[0] == 'kd':
            check_kd(V, *plan[1:])
        elif plan[0] == 'lattice':
            check_lattice(V, *plan[1:])
        elif plan[0] == 'poly':
            check_poly(V, *plan[1:])
        elif plan[0] == 'bez':
            check_bez(V, *plan[1:])
        else:
            check_conv(V, *plan[1:])
    return V.finish(floor_nontrivial=500 if quick else 5000, floor_evaluations=10000)


def check_kd(V, c, pts, qs, kind):
    if not ok(c.results[0]):
        V.violation('kd:construction-failed', {'points': pts[:10], 'res': c.results[0]})
        return
    for (q, idx) in qs:
        res = c.results[idx]
        V.count()
        if not ok(res):
            V.violation('kd:query-failed', {'q': q, 'res': res})
            continue
        t = res[1].split(' ')
        i1, d1, nx, ny = int(t[0]), core.fh(t[1]), core.fh(t[2]), core.fh(t[3])
        i2, d2, nvec = int(t[4]), core.fh(t[5]), int(t[6])
        dists = [math.sqrt((p[0] - q[0]) * (p[0] - q[0]) + (p[1] - q[1]) * (p[1] - q[1])) for p in pts]
        best = min(dists)
        detail = {'points': pts if len(pts) <= 20 else pts[:20], 'n': len(pts), 'q': q, 'returned': res[1][:200], 'brute_min': best, 'kind': kind}
        if d1 != best or dists[i1] != best or (nx, ny) != pts[i1]:
            V.violation('kd:find_closest_point-not-the-minimum', detail)
        if d2 != best or dists[i2] != best:
            V.violation('kd:find_closest_points-not-the-minimum', detail)
        for k in range(nvec):
            ii, dd = int(t[7 + 2 * k]), core.fh(t[8 + 2 * k])
            if dists[ii] != dd:
                V.violation('kd:find_closest_points-wrong-distance-in-list', detail)
                break
        ties = sum(1 for d in dists if d == best)
        if ties > 1 or len(pts) >= 17:
            V.nontrivial(('kd', c.cid, q))
    V.sample({'kernel': 'kd', 'n': len(pts), 'kind': kind, 'q': qs[0][0], 'answer': c.results[qs[0][1]][1][:80]})


def check_lattice(V, c, plan):
    for (spec, idx) in plan:
        res = c.results[idx]
        if not ok(res):
            V.violation('polygon:lattice-run-failed', {'spec': spec, 'res': res})
            continue
        kv = dict(t.split('=', 1) for t in res[1].split(' '))
        V.count(int(kv['tests']))
        V.coverage['lattice_polygons'] = V.coverage.get('lattice_polygons', 0) + int(kv['used'])
        V.coverage['lattice_boundary_tests'] = V.coverage.get('lattice_boundary_tests', 0) + int(kv['boundary'])
        for k in range(min(int(kv['used']), 100000)):
            pass
        V._nontrivial.update(('lattice', spec, c.cid, k) for k in range(min(int(kv['used']), 2000)))
        if int(kv['mismatches']) != 0:
            V.violation('polygon:lattice-mismatch:%s' % ('spherical' if spec[2] == 's' else 'cartesian'), {'spec': spec, 'result': res[1]})
        V.sample({'kernel': 'polygon lattice', 'spec': spec, 'result': res[1]})


def check_poly(V, c, ip, qs, sph):
    for (expect, alias, pt2, idx) in qs:
        res = c.results[idx]
        V.count()
        if not ok(res):
            V.violation('polygon:query-failed', {'poly': ip, 'pt2': pt2, 'res': res})
            continue
        t = res[1].split(' ')
        got, impl = int(t[0]), int(t[1])
        want = 1 if expect else 0
        if got != want or (alias == 0 and impl != want):
            cls = 'boundary' if expect == 2 else ('alias' if alias else 'interior-or-exterior')
            V.violation('polygon:random-lattice-mismatch:%s:%s' % ('spherical' if sph else 'cartesian', cls), {'poly': ip, 'point_times_2': pt2, 'expect': expect, 'alias': alias, 'got': res[1], 'cmd': c.cmds[idx][:300]})
        if expect == 2 or alias:
            V.nontrivial(('poly', c.cid, pt2, alias))


def check_bez(V, c, pts, ends, qs, sph):
    if not ok(c.results[0]):
        V.violation('bezier:construction-failed', {'points': pts, 'res': c.results[0]})
        return
    scale = max(max(abs(p[0]), abs(p[1])) for p in pts)
    for (k, i0, i1) in ends:
        for idx, want in ((i0, pts[k]), (i1, pts[k + 1])):
            V.count()
            res = c.results[idx]
            if not ok(res):
                V.violation('bezier:evaluation-failed', {'points': pts, 'res': res})
                continue
            v = vals(res)
            if abs(v[0] - want[0]) > 1e-9 * scale or abs(v[1] - want[1]) > 1e-9 * scale:
                V.violation('bezier:curve-misses-its-coordinate', {'points': pts, 'segment': k, 'got': v, 'want': want})
    n = len(pts)
    bends = n > 2
    for (q, i1, i2, qclass) in qs:
        r1, r2 = c.results[i1], c.results[i2]
        V.count()
        if not ok(r2):
            V.violation('bezier:brute-force-evaluation-failed', {'points': pts, 'q': q, 'res': r2})
            continue
        b = r2[1].split(' ')
        bd, bi, bt = core.fh(b[0]), int(b[1]), core.fh(b[2])
        # "foot inside the curve": arc-length fraction (chord approximation) of the brute-force foot within [1e-2, 1-1e-2]
        # of the whole trench (a two point trench is parametrised by t^3, so the parameter itself says little near the ends)
        bpx, bpy = core.fh(b[3]), core.fh(b[4])
        chords = [math.hypot(pts[k + 1][0] - pts[k][0], pts[k + 1][1] - pts[k][1]) for k in range(n - 1)]
        along = sum(chords[:bi]) + min(chords[bi], math.hypot(bpx - pts[bi][0], bpy - pts[bi][1]))
        frac = along / sum(chords)
        interior = 1e-2 < frac < 1 - 1e-2
        if not interior:
            continue     # foot at an end of the trench: outside the quantifier
        # near field = the query point is no farther from the curve than 1.5 x the chord of the segment holding the foot;
        # beyond that the closest-point problem has several local minima (inside the evolute) and gets its own key
        field = 'near-field' if bd <= 0.5 * chords[bi] else 'far-field(distance>half-segment-length)'
        if n == 2:
            # a two point trench is the cubic p0 + t^3 (p1 - p0): its derivative vanishes at the first coordinate, where the
            # solver starts when the chord projection of the point (in the x/y resp. lon/lat plane) is <= 0
            qx = q[0]
            if sph:
                while qx - pts[0][0] > PI:
                    qx -= 2 * PI
                while qx - pts[0][0] < -PI:
                    qx += 2 * PI
            est0 = ((qx - pts[0][0]) * (pts[1][0] - pts[0][0]) + (q[1] - pts[0][1]) * (pts[1][1] - pts[0][1])) / (chords[0] * chords[0])
            if est0 <= 1e-3:
                field = 'two-point-trench:chord-projection<=0'
        if qclass:
            # the strict class "on the normal through a coordinate" is a near-field class; in the far field it shares the known limits
            field += ':' + (qclass if field.startswith('near-field') else 'collinear')
        if not ok(r1):
            V.violation('bezier:closest-point-throws', {'points': pts, 'q': q, 'res': r1, 'spherical': sph})
            continue
        a = r1[1].split(' ')
        dist, param, idx, px, py = core.fh(a[0]), core.fh(a[1]), int(a[3]), core.fh(a[4]), core.fh(a[5])
        detail = {'points': pts, 'q': q, 'spherical': sph, 'library': r1[1], 'brute': r2[1]}
        if not math.isfinite(dist) or px != px:
            V.violation('bezier:no-closest-point-for-interior-foot:%s:%s' % ('spherical' if sph else 'cartesian', field), detail)
            continue
        if sph:
            sl = math.sin(0.5 * (py - q[1]))
            so = math.sin(0.5 * (px - q[0]))
            own = 2.0 * math.asin(min(1.0, math.sqrt(sl * sl + math.cos(py) * math.cos(q[1]) * so * so)))
        else:
            own = math.hypot(px - q[0], py - q[1])
        # relative 1e-6 of the distance, plus an absolute floor of 1e-6 of the trench length (1 m per 1000 km): for a point
        # almost on the curve the excess is first order in the foot error, and the solver's stop rule (parameter update < 1e-4,
        # quadratic convergence) leaves foot errors of up to ~1e-7 of the length (observed: 4 cm on a 611 km trench)
        tol = 1e-6 * bd + 1e-6 * sum(chords)
        if own > bd + tol:
            cls = field
            if abs(idx - bi) == 1 and own - bd <= 1e-4 * sum(chords) and field == 'near-field':
                # the foot lies near the junction of two segments and the solver settled in the local minimum of the neighbouring
                # segment: a point on the curve, but up to 1e-4 of the trench length farther away than the true foot (known finding)
                cls = field + ':local-minimum-of-the-adjacent-segment(excess<=1e-4L)'
            V.violation('bezier:closer-curve-point-exists:%s:%s' % ('spherical' if sph else 'cartesian', cls), dict(detail, returned_point_distance=own, brute_min=bd, excess=own - bd))
        if not sph and abs(abs(dist) - own) > 1e-9 * scale + 1e-9 * own:
            V.violation('bezier:reported-distance-is-not-the-distance-to-the-reported-point', dict(detail, reported=dist, actual=own))
        if bends and 0.02 < bt < 0.98 and field.startswith('near-field'):
            V.nontrivial(('bez', c.cid, q))
        V.coverage['bezier_' + field.split('(')[0].split(':')[0]] = V.coverage.get('bezier_' + field.split('(')[0].split(':')[0], 0) + 1
    V.sample({'kernel': 'bezier', 'points': pts, 'spherical': sph, 'q': qs[0][0], 'library': c.results[qs[0][1]][1], 'brute': c.results[qs[0][2]][1]})


def check_conv(V, c, cplan):
    for (kind, arg, idx) in cplan:
        res = c.results[idx]
        V.count()
        if not ok(res):
            V.violation('conversion:failed:%s' % kind, {'arg': arg, 'res': res})
            continue
        v = vals(res)
        if kind == 's2c':
            r, lon, lat = arg
            ex = (r * math.cos(lat) * math.cos(lon), r * math.cos(lat) * math.sin(lon), r * math.sin(lat))
            if max(abs(v[i] - ex[i]) for i in range(3)) > 1e-12 * r:
                V.violation('conversion:spherical_to_cartesian-wrong', {'arg': arg, 'got': v, 'expected': ex})
            # round trip back
            rr = math.sqrt(v[0] ** 2 + v[1] ** 2 + v[2] ** 2)
            if not rel_close(rr, r, 1e-12):
                V.violation('conversion:radius-not-preserved', {'arg': arg, 'got': v})
        elif kind == 'c2s':
            x, y, z = arg
            r = math.sqrt(x * x + y * y + z * z)
            lon = math.atan2(y, x)
            lat = math.atan2(z, math.hypot(x, y))
            # compare positions (angles are ill conditioned near the poles): distance between the returned and the true point
            if any(t != t or abs(t) == float('inf') for t in v):
                V.violation('conversion:cartesian_to_spherical-not-finite', {'arg': arg, 'got': v})
                continue
            bx, by, bz = v[0] * math.cos(v[2]) * math.cos(v[1]), v[0] * math.cos(v[2]) * math.sin(v[1]), v[0] * math.sin(v[2])
            hyp = math.sqrt(math.fsum(((bx - x) ** 2, (by - y) ** 2, (bz - z) ** 2))) if max(abs(x), abs(y), abs(z)) > 1e-150 else max(abs(bx - x), abs(by - y), abs(bz - z))
            if r < 1e-140:
                # the centre and vectors whose squared norm underflows: the round trip must come back to within 1e-140 m
                if hyp > 1e-140:
                    V.violation('conversion:cartesian_to_spherical-round-trip:centre', {'arg': arg, 'got': v, 'absolute_position_error': hyp})
                else:
                    V.nontrivial(('c2s-centre', arg))
                continue
            err = hyp / r
            pole = abs(lat) > math.radians(89.0)
            if err > (1e-12 if not pole else 1e-7):
                V.violation('conversion:cartesian_to_spherical-round-trip:%s' % ('near-pole' if pole else 'general'), {'arg': arg, 'got': v, 'expected': (r, lon, lat), 'relative_position_error': err})
            V.coverage['max_c2s_relative_error'] = max(V.coverage.get('max_c2s_relative_error', 0.0), err)
        else:
            r, lon1, lat1, lon2, lat2 = arg
            a = (math.cos(lat1) * math.cos(lon1), math.cos(lat1) * math.sin(lon1), math.sin(lat1))
            b = (math.cos(lat2) * math.cos(lon2), math.cos(lat2) * math.sin(lon2), math.sin(lat2))
            cr = (a[1] * b[2] - a[2] * b[1], a[2] * b[0] - a[0] * b[2], a[0] * b[1] - a[1] * b[0])
            ang = math.atan2(math.sqrt(cr[0] ** 2 + cr[1] ** 2 + cr[2] ** 2), a[0] * b[0] + a[1] * b[1] + a[2] * b[2])
            ex = r * ang
            # acos form loses accuracy for tiny and nearly antipodal separations: absolute tolerance 2e-8 rad
            if not (abs(v[0] - ex) <= r * 3e-8 + 1e-9 * ex):       # written so that a NaN answer fails
                cls = 'obtuse' if ang > PI / 2 else 'acute'
                V.violation('great-circle-distance-wrong:%s' % cls, {'arg': arg, 'got': v[0], 'expected': ex, 'central_angle': ang})
            if ang > PI / 2:
                V.nontrivial(('gc', arg))
    V.sample({'kernel': 'gcdist', 'case': cplan[-1][1], 'answer': c.results[cplan[-1][2]][1]})
