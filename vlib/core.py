"""Shared machinery: builds, the wbmon runner (sharded, crash/hang routing), known findings,
verdicts, evidence, replay files. Standard library only."""
import concurrent.futures
import fnmatch
import json
import math
import os
import random
import re
import shutil
import subprocess
import sys
import time

ROOT = os.path.dirname(os.path.dirname(os.path.abspath(__file__)))
REPO = os.environ.get('GWB_REPO', '/repo')
BUILD = os.path.join(ROOT, '.build')
WORK = os.path.join(ROOT, 'work')
NCPU = int(os.environ.get('VERIF_WORKERS', '16'))


def hx(x):
    """double -> C99 hex float (bit exact transport)"""
    return float(x).hex()


def fh(s):
    if s in ('nan', '-nan'):
        return float('nan')
    if s == 'inf':
        return float('inf')
    if s == '-inf':
        return float('-inf')
    return float.fromhex(s)


def hv(s):
    """payload of hex floats -> list of floats"""
    s = s.strip()
    if not s:
        return []
    return [fh(t) for t in s.split(' ')]


def props_str(props):
    return ';'.join('%d,%d,%d' % tuple(p) for p in props) if props else '-'


def block_sizes(props):
    out = []
    for p in props:
        if p[0] in (1, 2, 4):
            out.append(1)
        elif p[0] == 3:
            out.append(10 * p[2])
        elif p[0] == 5:
            out.append(3)
        else:
            raise ValueError(p)
    return out


def split_blocks(values, props):
    out = []
    i = 0
    for n in block_sizes(props):
        out.append(values[i:i + n])
        i += n
    return out


def same_bits(a, b):
    """bit equality of two float lists (NaN equal to NaN of any payload; -0 != +0)"""
    if len(a) != len(b):
        return False
    for x, y in zip(a, b):
        if x != x and y != y:
            continue
        if x != y or math.copysign(1, x) != math.copysign(1, y):
            return False
    return True


# ----------------------------------------------------------------------------------------
# builds

def build(flavour):
    t0 = time.time()
    r = subprocess.run([os.path.join(ROOT, 'bin', 'build.sh'), flavour], stdout=subprocess.PIPE, stderr=subprocess.STDOUT, text=True)
    if r.returncode != 0:
        sys.stdout.write(r.stdout)
        raise Harness('build of flavour %s failed' % flavour)
    return time.time() - t0


def exe(flavour, name='wbmon'):
    if name in ('gwb-dat', 'gwb-grid'):
        return os.path.join(BUILD, flavour, 'wb', 'bin', name)
    return os.path.join(BUILD, flavour, name)


class Harness(Exception):
    pass


def san_env(flavour, logprefix=None):
    env = dict(os.environ)
    if flavour in ('asan', 'fuzz'):
        env['ASAN_OPTIONS'] = 'detect_leaks=0:abort_on_error=0:handle_abort=1:allocator_may_return_null=1:malloc_context_size=10:max_allocation_size_mb=4096' + ((':log_path=' + logprefix) if logprefix else '')
        env['UBSAN_OPTIONS'] = 'print_stacktrace=1:halt_on_error=1' + ((':log_path=' + logprefix) if logprefix else '')
    if flavour == 'tsan':
        env['TSAN_OPTIONS'] = 'halt_on_error=0:second_deadlock_stack=1:history_size=4' + ((':log_path=' + logprefix) if logprefix else '')
    return env


# ----------------------------------------------------------------------------------------
# cases and the runner

class Case(object):
    """One self contained unit of work for wbmon: creates its worlds, queries, nothing survives."""
    __slots__ = ('cid', 'cmds', 'meta', 'results', 'crash', 'files', 'dirs')

    def __init__(self, cid, cmds=None, meta=None, files=None):
        self.cid = str(cid)
        self.cmds = cmds if cmds is not None else []
        self.meta = meta
        self.results = None   # list of (status, payload) aligned with cmds; status in ok/ex/exx/harness/missing
        self.crash = None     # None or dict(kind=..., key=..., log=..., at=index of the command that never answered)
        self.files = files or {}
        self.dirs = []

    def add(self, *fields):
        self.cmds.append('\t'.join(str(f) for f in fields))
        return len(self.cmds) - 1


_REPO_FRAME = re.compile(r'#\d+ 0x[0-9a-f]+ in (.+?) (/\S+?):(\d+)')


def parse_sanitizer_log(text):
    """-> (kind, innermost frame inside the repository or 'unknown')"""
    kind = None
    m = re.search(r'ERROR: AddressSanitizer: ([A-Za-z0-9_-]+)', text)
    if m:
        kind = 'asan:' + m.group(1)
        if m.group(1) == 'SEGV':
            pass
    if kind is None:
        m = re.search(r'runtime error: (.*)', text)
        if m:
            msg = m.group(1)
            msg = re.sub(r'0x[0-9a-f]+', 'ADDR', msg)
            msg = re.sub(r'-?\d+(\.\d+)?(e[+-]?\d+)?', 'N', msg)
            kind = 'ubsan:' + msg.strip()[:80]
    if kind is None:
        m = re.search(r'WARNING: ThreadSanitizer: ([a-z ]+)', text)
        if m:
            kind = 'tsan:' + m.group(1).strip()
    if kind is None:
        m = re.search(r'terminate called after throwing an instance of \'([^\']+)\'', text)
        if m:
            kind = 'terminate:' + m.group(1)
    if kind is None:
        if 'AddressSanitizer' in text and 'allocation-size-too-big' in text:
            kind = 'asan:allocation-size-too-big'
    frame = 'unknown'
    m = re.search(r'runtime error:.*\n', text)
    # ubsan prints the source location at the start of the line
    mloc = re.search(r'(/\S+?):(\d+):(\d+): runtime error', text)
    for fm in _REPO_FRAME.finditer(text):
        func, path, line = fm.group(1), fm.group(2), fm.group(3)
        if '/source/' in path or '/include/world_builder' in path or '/include/' in path and REPO in path:
            if 'wbmon.cc' in path:
                continue
            func = re.sub(r'\(.*', '', func)
            func = re.sub(r'<.*>', '', func)
            frame = func.strip() + '@' + os.path.basename(path)
            break
    if frame == 'unknown' and mloc:
        frame = os.path.basename(mloc.group(1))
    return kind, frame


def _run_shard(args):
    """run a list of cases sequentially through wbmon processes; restart after a crash or hang"""
    flavour, shard_id, cases, workdir, per_case_timeout, extra_env = args
    binary = exe(flavour)
    idx = 0
    attempt = 0
    while idx < len(cases):
        attempt += 1
        tag = 's%d_a%d' % (shard_id, attempt)
        cmdfile = os.path.join(workdir, tag + '.cmd')
        outfile = os.path.join(workdir, tag + '.out')
        errfile = os.path.join(workdir, tag + '.err')
        logprefix = os.path.join(workdir, tag + '.san')
        batch = cases[idx:]
        with open(cmdfile, 'w') as f:
            for c in batch:
                f.write('case\t%s\n' % c.cid)
                for line in c.cmds:
                    f.write(line + '\n')
        env = san_env(flavour, logprefix)
        if extra_env:
            env.update(extra_env)
        # watchdog on progress, not on the whole shard: every command writes one flushed line, so an output file that has
        # not grown for per_case_timeout seconds means the current command hangs
        timed_out = False
        t0 = time.time()
        with open(cmdfile) as fin, open(outfile, 'w') as fout, open(errfile, 'w') as ferr:
            p = subprocess.Popen([binary], stdin=fin, stdout=fout, stderr=ferr, env=env, cwd=workdir)
            last_size = -1
            last_change = time.time()
            rc = None
            while True:
                try:
                    rc = p.wait(timeout=1.0)
                    break
                except subprocess.TimeoutExpired:
                    pass
                try:
                    size = os.path.getsize(outfile)
                except OSError:
                    size = last_size
                now = time.time()
                if size != last_size:
                    last_size = size
                    last_change = now
                elif now - last_change > per_case_timeout:
                    p.kill()
                    p.wait()
                    rc = -9
                    timed_out = True
                    break
        # parse the output
        with open(outfile, errors='replace') as f:
            lines = f.read().split('\n')
        pos = -1      # index in batch
        ended = False
        cur = None
        for line in lines:
            if not line:
                continue
            if line == 'end':
                ended = True
                continue
            if line.startswith('case\t'):
                pos += 1
                cur = batch[pos]
                if line[5:] != cur.cid:
                    raise Harness('case echo mismatch %r vs %r' % (line, cur.cid))
                cur.results = []
                continue
            parts = line.split('\t', 2)
            if len(parts) < 2:
                continue   # a torn line at a crash
            cur.results.append((parts[1], parts[2] if len(parts) > 2 else ''))
        if ended and pos == len(batch) - 1:
            for c in batch:
                _pad(c)
            # tsan reports do not end the process: attach them to the shard
            _attach_tsan(flavour, logprefix, batch)
            idx = len(cases)
            break
        # crash or hang inside batch[pos]
        if pos < 0:
            san = _collect_logs(logprefix, errfile)
            raise Harness('wbmon died before the first case: rc=%s %s' % (rc, san[:2000]))
        bad = batch[pos]
        for c in batch[:pos]:
            _pad(c)
        san = _collect_logs(logprefix, errfile)
        at = len(bad.results)
        _pad(bad)
        if timed_out:
            bad.crash = {'kind': 'timeout', 'frame': 'unknown', 'log': '', 'at': at, 'rc': rc, 'needs_confirmation': True}
        else:
            kind, frame = parse_sanitizer_log(san)
            if kind is None:
                kind = 'signal:%s' % (-rc if rc is not None and rc < 0 else rc)
            bad.crash = {'kind': kind, 'frame': frame, 'log': san[:7000], 'at': at, 'rc': rc}
        for c in batch[pos + 1:]:
            c.results = None
        idx = idx + pos + 1
    return cases


def _pad(c):
    if c.results is None:
        c.results = []
    while len(c.results) < len(c.cmds):
        c.results.append(('missing', ''))


def _collect_logs(logprefix, errfile):
    text = ''
    d = os.path.dirname(logprefix)
    base = os.path.basename(logprefix)
    for name in sorted(os.listdir(d)):
        if name.startswith(base):
            with open(os.path.join(d, name), errors='replace') as f:
                text += f.read()
    with open(errfile, errors='replace') as f:
        text += f.read()
    return text


def _attach_tsan(flavour, logprefix, batch):
    if flavour != 'tsan':
        return
    text = _collect_logs(logprefix, os.devnull)
    if text and batch:
        batch[-1].meta = dict(batch[-1].meta or {}, tsan_log=text)


def run_cases(flavour, cases, name, per_case_timeout=60, workers=None, extra_env=None, keep=False, isolate=False):
    """run cases on `workers` wbmon processes; fills case.results / case.crash; returns cases"""
    workers = workers or NCPU
    workdir = os.path.join(WORK, name)
    if not keep:
        shutil.rmtree(workdir, ignore_errors=True)
    os.makedirs(workdir, exist_ok=True)
    for c in cases:
        for dn in c.dirs:
            os.makedirs(os.path.join(workdir, dn), exist_ok=True)
        for fn, content in c.files.items():
            path = os.path.join(workdir, fn)
            with open(path, 'wb' if isinstance(content, bytes) else 'w') as f:
                f.write(content)
    if isolate:
        shards = [[c] for c in cases]          # a fresh process per case (no history from other cases)
    else:
        shards = [[] for _ in range(workers)]
        for i, c in enumerate(cases):
            shards[i % workers].append(c)
    jobs = [(flavour, i, s, workdir, per_case_timeout, extra_env) for i, s in enumerate(shards) if s]
    with concurrent.futures.ThreadPoolExecutor(max_workers=workers) as ex:
        list(ex.map(_run_shard, jobs))
    # confirm timeouts in isolation (a loaded machine is not a hang)
    for c in cases:
        if c.crash and c.crash.get('needs_confirmation'):
            solo = Case(c.cid, c.cmds, c.meta, c.files)
            _run_shard((flavour, 900 + random.randrange(1000), [solo], workdir, per_case_timeout * 3, extra_env))
            if solo.crash and solo.crash['kind'] == 'timeout':
                c.crash['needs_confirmation'] = False
                c.crash['kind'] = 'hang'
            else:
                c.results = solo.results
                c.crash = solo.crash
    return cases


def workfile(name, fn):
    return os.path.join(WORK, name, fn)


# ----------------------------------------------------------------------------------------
# known findings, verdicts, evidence

def load_known():
    path = os.path.join(ROOT, 'known_findings.json')
    if not os.path.exists(path):
        return []
    with open(path) as f:
        return json.load(f)['findings']


class Verdict(object):
    def __init__(self, pid, tier, seed):
        self.pid = pid
        self.tier = tier
        self.seed = seed
        self.t0 = time.time()
        self.violations = {}      # key -> list of details
        self.inconclusive = []
        self.coverage = {'evaluations': 0, 'distinct_nontrivial': 0, 'rule': '', 'samples': []}
        self.assumptions = []
        self.known = [k for k in load_known() if k['property'] == pid]
        self.notes = []
        self._nontrivial = set()
        shutil.rmtree(os.path.join(ROOT, 'replays', pid), ignore_errors=True)

    def violation(self, key, detail):
        self.violations.setdefault(key, []).append(detail)

    def crash(self, case, context=None):
        """route a crash/hang of a case through the same matcher"""
        c = case.crash
        key = 'crash:%s:%s' % (c['kind'], c['frame'])
        cmd = case.cmds[c['at']] if c['at'] < len(case.cmds) else None
        self.violation(key, {'case': case.cid, 'command': cmd, 'sanitizer_log_tail': c.get('log', '')[-3000:], 'context': context,
                             'commands': case.cmds[:c['at'] + 1][-50:], 'files': case.files})
        return key

    def count(self, n=1):
        self.coverage['evaluations'] += n

    def nontrivial(self, ident):
        self._nontrivial.add(ident)

    def sample(self, s, limit=5):
        if len(self.coverage['samples']) < limit:
            self.coverage['samples'].append(s)

    def finish(self, floor_nontrivial=2, floor_evaluations=1):
        wall = time.time() - self.t0
        self.coverage['distinct_nontrivial'] = len(self._nontrivial) if self._nontrivial else self.coverage.get('distinct_nontrivial', 0)
        unlisted = 0
        known_seen = []
        replay_dir = os.path.join(ROOT, 'replays', self.pid)
        lines = []
        for key, details in sorted(self.violations.items()):
            match = None
            for k in self.known:
                if k.get('status') == 'open' and fnmatch.fnmatchcase(key, k['key']):
                    match = k
                    break
            if match:
                known_seen.append({'key': key, 'count': len(details)})
                lines.append('KNOWN-FINDING: property=%s %s [%s; %d occurrence(s) this run]' % (self.pid, match['what'], key, len(details)))
            else:
                unlisted += 1
                os.makedirs(replay_dir, exist_ok=True)
                fn = os.path.join(replay_dir, re.sub(r'[^A-Za-z0-9_.-]+', '_', key)[:120] + '.json')
                with open(fn, 'w') as f:
                    json.dump({'property': self.pid, 'key': key, 'tier': self.tier, 'seed': self.seed, 'occurrences': len(details), 'first': details[0], 'more': details[1:4]}, f, indent=1, default=str)
                lines.append('VIOLATION property=%s replay=%s  (%s, %d occurrence(s))' % (self.pid, fn, key, len(details)))
        if self.coverage['distinct_nontrivial'] < floor_nontrivial:
            self.inconclusive.append('only %d distinct non-trivial cases (floor %d)' % (self.coverage['distinct_nontrivial'], floor_nontrivial))
        if self.coverage['evaluations'] < floor_evaluations:
            self.inconclusive.append('only %d evaluations (floor %d)' % (self.coverage['evaluations'], floor_evaluations))
        ev = {
            'property_id': self.pid, 'tier': self.tier, 'seed': self.seed, 'level': 'exploration',
            'coverage': dict(self.coverage, known_findings_seen=known_seen, inconclusive=self.inconclusive, notes=self.notes),
            'assumptions': self.assumptions, 'wall_s': round(wall, 2), 'violations': unlisted,
        }
        if not ev['coverage']['samples']:
            ev['coverage']['samples'] = ['(no sample recorded)']
        # runs against a deliberately broken tree (tools/with_patch.sh) must not overwrite the evidence of the unchanged tree
        evdir = os.environ.get('VERIF_EVIDENCE_DIR') or os.path.join(ROOT, 'evidence')
        os.makedirs(evdir, exist_ok=True)
        with open(os.path.join(evdir, self.pid + '.json'), 'w') as f:
            json.dump(ev, f, indent=1, default=str)
        for l in lines:
            print(l)
        print('%s %s seed=%d: evaluations=%d distinct_nontrivial=%d unlisted_violations=%d known=%d wall=%.1fs' % (
            self.pid, self.tier, self.seed, self.coverage['evaluations'], self.coverage['distinct_nontrivial'], unlisted, len(known_seen), wall))
        if unlisted:
            return 1
        if self.inconclusive:
            print('INCONCLUSIVE: ' + '; '.join(self.inconclusive))
            return 2
        return 0


def tier_and_seed(argv):
    tier = os.environ.get('VERIF_TIER', 'quick')
    seed = int(os.environ.get('VERIF_SEED', '1'))
    replay = None
    i = 0
    while i < len(argv):
        if argv[i] == '--tier':
            tier = argv[i + 1]
            i += 2
        elif argv[i] == '--seed':
            seed = int(argv[i + 1])
            i += 2
        elif argv[i] == '--replay':
            replay = argv[i + 1]
            i += 2
        else:
            i += 1
    if tier not in ('quick', 'thorough'):
        tier = 'quick'
    return tier, seed, replay
