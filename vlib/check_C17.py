"""C17 - gwb-dat prints exactly the library's values under its column headers (DESIGN.md C17)."""
import concurrent.futures
import math
import os
import random
import subprocess

from . import core, corpus, worldgen as wg

PID = 'C17'
PI = math.pi


def fmt(v):
    """what a default std::ostream prints for a double"""
    return '%g' % v


def gen_dat(rng, ctx, pts3, cross, malformed=None):
    """-> (text of the .dat file, spec)"""
    dim = 2 if (cross and rng.random() < 0.5) else 3
    ncomp = rng.choice([0, 1, 2, 3, 5])
    ngc = rng.choice([0, 0, 1, 2, 3, 4])
    ngr = rng.choice([0, 1, 2, 3, 5]) if ngc else rng.choice([0, 2])
    convert = dim == 3 and rng.random() < (0.5 if ctx.sph else 0.25)      # the option converts the row, whatever the world's coordinate system
    # the unsupported combination: the conversion is documented for 3D only; a dim = 2 file that asks for it must be reported,
    # whichever of the two option lines comes first
    convert2d = dim == 2 and malformed is None and rng.random() < 0.4
    sep = rng.choice([' ', ', ', '  ', '\t'])
    lines = []
    lines.append(rng.choice(['# This is a comment in the data', '#', '# a b', '# dim', '# x y z d', '#   ', '# number of', '# convert spherical = false', '# grain compositions']))
    lines.append('# file.')
    opts = ['# dim = %d' % dim, '# compositions = %d' % ncomp, '# grain compositions = %d' % ngc, '# number of grains = %d' % ngr]
    if convert or convert2d:
        opts.append('# convert spherical = true')
    rng.shuffle(opts)
    if convert2d:
        # both orders of the two lines, evenly
        ia, ib = opts.index('# dim = 2'), opts.index('# convert spherical = true')
        if (ia < ib) != (rng.random() < 0.5):
            opts[ia], opts[ib] = opts[ib], opts[ia]
    # option lines are honoured wherever they stand: all in the header (usual), or some of them between / behind the rows
    placement = rng.choice(['header', 'header', 'header', 'between', 'footer'])
    late = []
    if placement != 'header':
        k = rng.randint(1, len(opts))
        late = opts[-k:]
        opts = opts[:-k]
        if any(o.startswith('# dim') or o.startswith('# convert') for o in late):
            # dim and convert spherical decide how a row is read: keep those in front (a row read before them is a different file)
            opts += [o for o in late if o.startswith('# dim') or o.startswith('# convert')]
            late = [o for o in late if not (o.startswith('# dim') or o.startswith('# convert'))]
    lines += opts
    if rng.random() < 0.3:
        lines.append('#')
    rows = []
    for p in pts3:
        if dim == 2:
            d = p[2]
            (x2, z2), _s = wg.section_query(ctx, cross, rng.uniform(-0.2, 1.2), d)
            toks = [fmt_in(rng, x2), fmt_in(rng, z2), fmt_in(rng, d)]
        elif convert and not ctx.sph:
            # a cartesian world addressed in (R, longitude, latitude): the row is converted to x, y, z before the library is asked
            x, y, z = ctx.point(p[0], p[1], p[2])
            r = math.sqrt(x * x + y * y + z * z) or 1.0
            toks = [fmt_in(rng, r), fmt_in(rng, math.degrees(math.atan2(y, x))), fmt_in(rng, math.degrees(math.asin(max(-1.0, min(1.0, z / r))))), fmt_in(rng, p[2])]
        elif convert:
            r = ctx.R - p[2]
            toks = [fmt_in(rng, r), fmt_in(rng, p[0]), fmt_in(rng, p[1]), fmt_in(rng, p[2])]
        else:
            x, y, z = ctx.point(p[0], p[1], p[2])
            toks = [fmt_in(rng, x), fmt_in(rng, y), fmt_in(rng, z), fmt_in(rng, p[2])]
        rows.append(toks)
    bad_row = None
    if malformed:
        k = rng.randrange(len(rows))
        if malformed == 'too-few':
            rows[k] = rows[k][:rng.randint(1, dim)]          # any count from a lone entry to one entry short
        elif malformed == 'glued':
            rows[k] = [','.join(rows[k])]                   # comma separated without blanks: one token for the reader
        elif malformed == 'non-numeric':
            rows[k] = list(rows[k])
            rows[k][rng.randrange(len(rows[k]))] = rng.choice(['abc', 'x1', '--', '1.0.0', 'e5'])
        else:
            rows[k] = rows[k] + ['1.0'] * rng.randint(1, 3)
        bad_row = k
    for k, toks in enumerate(rows):
        lines.append(sep.join(toks))
        if placement == 'between' and late and (k == 0 or rng.random() < 0.3):
            lines.append(late.pop())
        if rng.random() < 0.05:
            lines.append('')
        if rng.random() < 0.05:
            lines.append('# a comment between the rows')
    lines += late
    return '\n'.join(lines) + '\n', {'dim': dim, 'ncomp': ncomp, 'ngc': ngc, 'ngr': ngr, 'convert': convert, 'rows': rows, 'bad_row': bad_row, 'sep': sep, 'malformed': malformed, 'option_placement': placement, 'convert2d': convert2d}


def fmt_in(rng, v):
    r = rng.random()
    if r < 0.5:
        return '%.10g' % v
    if r < 0.8:
        return '%.6e' % v
    return repr(float('%.12g' % v))


def run_tool(args):
    exe, wb, dat, cwd = args[:4]
    flags = list(args[4]) if len(args) > 4 else []
    env = core.san_env('asan')
    try:
        p = subprocess.run([exe, wb, dat] + flags, cwd=cwd, env=env, stdout=subprocess.PIPE, stderr=subprocess.PIPE, text=True, timeout=300, errors='replace')
        return p.returncode, p.stdout, p.stderr
    except subprocess.TimeoutExpired:
        return 'timeout', '', ''


def expected_columns(spec):
    cols = ['x', 'z', 'd'] if spec['dim'] == 2 else ['x', 'y', 'z', 'd']
    names = ['T', 'vx', 'vz'] if spec['dim'] == 2 else ['T', 'vx', 'vy', 'vz']
    for c in range(spec['ncomp']):
        names.append('c%d' % c)
    for gc in range(spec['ngc']):
        for g in range(spec['ngr']):
            names.append('gs%d-%d' % (gc, g))
            for a in range(3):
                for b in range(3):
                    names.append('gm%d-%d[%d:%d]' % (gc, g, a, b))
    names.append('tag')
    return cols, names


def library_values(spec, v):
    """the values the library returned for the property list of the row, in header order: T, velocity, compositions, grains (size, matrix per grain), tag"""
    dim = spec['dim']
    out = [v[0]]
    out += [v[1], v[2]] if dim == 2 else [v[1], v[2], v[3]]
    i = 4
    out += v[i:i + spec['ncomp']]
    i += spec['ncomp']
    n = spec['ngr']
    for gc in range(spec['ngc']):
        blk = v[i:i + 10 * n]
        for g in range(n):
            out.append(blk[g])
            out += blk[n + 9 * g:n + 9 * g + 9]
        i += 10 * n
    out.append(v[i])
    return out


def main(tier, seed, replay):
    core.build('asan')
    rng = random.Random(seed * 5701 + 17)
    V = core.Verdict(PID, tier, seed)
    V.coverage['rule'] = ('the ASan+UBSan build of gwb-dat on generated .dat files (dim 2/3, 0-5 compositions, 0-4 grain compositions x 0-5 grains, convert spherical, space / comma+space / tab separated, comment lines of '
                          'every length incl. a lone "#", blank lines, one row with too few or too many columns in some files) x corpus and generated worlds; every printed column compared by string with the %g rendering of '
                          'the library value obtained through the monitor process for the same point and property list; non-trivial = rows at points inside a feature with >= 1 composition or grain column')
    nruns = 300 if tier == "quick" else 6000
    workdir = os.path.join(core.WORK, PID)
    import shutil
    shutil.rmtree(workdir, ignore_errors=True)
    os.makedirs(workdir)
    files = [p for p in corpus.world_files()]
    rng.shuffle(files)
    descs = [d for d in (corpus.describe(p) for p in files) if d]
    runs = []
    for i in range(nruns):
        wrng = random.Random(rng.getrandbits(48))
        if wrng.random() < 0.4 and descs:
            d = wrng.choice(descs)
            if corpus.is_random(d['path']):
                continue
            ctx = corpus.ctx_for(d)
            wb = d['path']
            pts = corpus.sample_points(wrng, d, 12)
            cross = d['cross']
        else:
            # a fifth of the generated worlds carry random grains models (no seed entry): the tool's world must be seeded like the
            # library's default world (seed 1) and evaluate the rows in file order, once each - the monitor replays exactly that
            rnd_world = wrng.random() < 0.2
            w = wg.gen_world(wrng, {'nfeatures': (1, 4), 'p_grains': 0.9 if rnd_world else 0.6, 'p_velocity': 0.6, 'ncomp': 4, 'random_models': rnd_world})
            ctx = w['truth']['ctx']
            wb = os.path.join(workdir, 'w%d.wb' % i)
            with open(wb, 'w') as f:
                f.write(wg.dumps(w['json']))
            pts = wg.sample_points(wrng, w, 12, p_inside=0.8)
            cross = w['truth']['cross']
        malformed = wrng.choice([None, None, None, None, 'too-few', 'too-few', 'too-many', 'glued', 'non-numeric'])
        text, spec = gen_dat(wrng, ctx, pts, cross, malformed)
        if wb.startswith(workdir) and rnd_world and spec['ngc'] == 0:
            # make sure the random draws are asked for
            text, spec = gen_dat(random.Random(wrng.getrandbits(32) | 1), ctx, pts, cross, None)
        dat = os.path.join(workdir, 'd%d.dat' % i)
        with open(dat, 'w') as f:
            f.write(text)
        runs.append({'i': i, 'wb': wb, 'dat': dat, 'spec': spec, 'ctx': ctx, 'text': text})
    exe = core.exe('asan', 'gwb-dat')
    with concurrent.futures.ThreadPoolExecutor(max_workers=core.NCPU) as ex:
        # the documented command line flag that only limits debug checks must not change a single printed value
        outs = list(ex.map(run_tool, [(exe, r['wb'], r['dat'], workdir, ['--limit-debug-consistency-checks'] if r['i'] % 3 == 0 else []) for r in runs]))
    # reference values through wbmon
    cases = []
    for r in runs:
        spec = r['spec']
        props = [(1, 0, 0), (5, 0, 0)] + [(2, c, 0) for c in range(spec['ncomp'])] + [(3, gc, spec['ngr']) for gc in range(spec['ngc'])] + [(4, 0, 0)]
        c = core.Case('r%d' % r['i'])
        c.add('world', 1, 1, 0, 0, '-', r['wb'])
        idx = []
        for k, toks in enumerate(spec['rows']):
            if k == spec['bad_row']:
                idx.append(None)
                continue
            vals_in = [float(t) for t in toks]
            if spec['dim'] == 2:
                idx.append(c.add('q2', 1, core.hx(vals_in[0]), core.hx(vals_in[1]), core.hx(vals_in[2]), core.props_str(props)))
            else:
                if spec['convert']:
                    # (R, lon deg, lat deg) -> cartesian exactly as documented
                    lon, lat = vals_in[1] * (PI / 180.0), vals_in[2] * (PI / 180.0)
                    cc = c.add('s2c', core.hx(vals_in[0]), core.hx(lon), core.hx(lat))
                    idx.append(('convert', cc, vals_in[3], props))
                else:
                    idx.append(c.add('q3', 1, core.hx(vals_in[0]), core.hx(vals_in[1]), core.hx(vals_in[2]), core.hx(vals_in[3]), core.props_str(props)))
        r['case'] = c
        r['idx'] = idx
        r['props'] = props
        cases.append(c)
    core.run_cases('asan', cases, PID + '_ref')
    # second pass for converted points (need the cartesian point first)
    cases2 = []
    for r in runs:
        if not r['spec']['convert']:
            continue
        c2 = core.Case('c%d' % r['i'])
        c2.add('world', 1, 1, 0, 0, '-', r['wb'])
        new_idx = []
        for it in r['idx']:
            if it is None:
                new_idx.append(None)
                continue
            _tag, cc, depth, props = it
            res = r['case'].results[cc]
            xyz = core.hv(res[1]) if res[0] == 'ok' else [0.0, 0.0, 0.0]
            new_idx.append(c2.add('q3', 1, core.hx(xyz[0]), core.hx(xyz[1]), core.hx(xyz[2]), core.hx(depth), core.props_str(props)))
        r['case'] = c2
        r['idx'] = new_idx
        cases2.append(c2)
    if cases2:
        core.run_cases('asan', cases2, PID + '_ref2')

    for r, (rc, out, err) in zip(runs, outs):
        spec = r['spec']
        c = r['case']
        label = 'dim%d' % spec['dim']
        base = {'wb': r['wb'], 'dat': r['dat'], 'spec': {k: spec[k] for k in ('dim', 'ncomp', 'ngc', 'ngr', 'convert', 'bad_row', 'sep')}, 'rc': rc, 'stderr_tail': err[-600:]}
        world_ok = c.results[0][0] == 'ok'
        if rc == 'timeout':
            V.violation('gwb-dat-hangs', base)
            continue
        san = 'AddressSanitizer' in err or 'runtime error:' in err
        if san and 'AddressSanitizer: ABRT' in err and 'terminate called' in err:
            san = False        # std::terminate after an uncaught exception: an abnormal exit with a diagnostic, reported by ASan's abort handler
        if san:
            kind, frame = core.parse_sanitizer_log(err)
            V.violation('crash:%s:%s' % (kind, frame), dict(base, data_head=r['text'][:300]))
            continue
        lines = [l for l in out.split('\n')]
        header = None
        rows_out = []
        for l in lines:
            if l.startswith('# '):
                header = l[2:].split()
            elif l.strip():
                rows_out.append(l.split())
        if not world_ok:
            continue
        if spec.get('convert2d'):
            V.count()
            if rc == 0:
                order = 'convert-first' if r['text'].find('# convert spherical') < r['text'].find('# dim =') else 'dim-first'
                V.violation('unsupported-option-combination-not-reported:dim2-with-convert-spherical:%s' % order, dict(base, stdout_tail=out[-300:]))
            else:
                V.nontrivial(('convert2d', r['i']))
            continue
        if spec['bad_row'] is not None:
            V.count()
            # a malformed row must be reported: diagnostic + abnormal exit, and no row printed for it
            if rc == 0 or not ('entries' in err or 'terminate' in err or 'AssertThrow' in err):
                V.violation('malformed-row-not-reported:%s:dim%d:%d-entries' % (spec['malformed'], spec['dim'], len(spec['rows'][spec['bad_row']])), dict(base, stdout_tail=out[-300:]))
            good_rows = spec['bad_row']
            # a row before it for which the library itself throws ends the tool there (legitimately)
            for k, it in enumerate(r['idx'][:spec['bad_row']]):
                if it is not None and c.results[it][0] == 'ex':
                    good_rows = k
                    break
            V.nontrivial(('malformed', r['i']))
        else:
            good_rows = len(spec['rows'])
            # a query for which the library itself throws ends the tool with that diagnostic: rows before it are still judged
            first_ex = None
            for k, it in enumerate(r['idx']):
                if it is not None and c.results[it][0] == 'ex':
                    first_ex = k
                    break
            if first_ex is not None:
                good_rows = first_ex
                if rc == 0:
                    V.violation('library-exception-not-reported-by-gwb-dat', base)
            elif rc != 0:
                V.violation('gwb-dat-fails-on-a-valid-file', base)
                continue
        if header is None:
            V.violation('no-header-line', dict(base, stdout_head=out[:300]))
            continue
        cols, names = expected_columns(spec)
        hdr = list(header)
        if spec['dim'] == 3 and hdr[:5] == ['x', 'y', 'z', 'd', 'g']:
            # the header announces a column g that no row contains
            V.violation('dim3:header-column-g-has-no-values', dict(base, header=header))
            hdr = hdr[:4] + hdr[5:]
        if hdr != cols + names:
            V.violation('header-differs-from-the-requested-columns:%s' % label, dict(base, header=header, expected=cols + names))
            continue
        if len(rows_out) < good_rows:
            V.violation('rows-missing', dict(base, printed=len(rows_out), expected=good_rows))
        for k in range(min(good_rows, len(rows_out))):
            toks = spec['rows'][k]
            ro = rows_out[k]
            it = r['idx'][k]
            if it is None:
                continue
            res = c.results[it]
            V.count()
            detail = dict(base, row=k, input=toks, printed=ro)
            if res[0] != 'ok':
                continue
            if ro[:len(cols)] != [t.replace(',', '') for t in toks]:
                V.violation('coordinates-not-echoed:%s' % label, detail)
                continue
            lib = library_values(spec, core.hv(res[1]))
            want = [fmt(x) for x in lib]
            got = ro[len(cols):]
            if got == want:
                if (spec['ncomp'] or (spec['ngc'] and spec['ngr'])) and lib[-1] >= 0:
                    V.nontrivial((r['i'], k))
                continue
            if spec['dim'] == 2:
                # known defect: in 2D every column after vz is shifted by one: c0 carries the (zero) third velocity component, the last
                # grain entry is dropped, the tag is right
                full = core.hv(res[1])
                shifted = [full[0], full[1], full[2]] + [full[3 + cidx] for cidx in range(spec['ncomp'])]
                n = spec['ngr']
                for gc in range(spec['ngc']):
                    start = 3 + spec['ncomp'] + gc * n * 10
                    for g in range(n):
                        shifted.append(full[start + g])
                        shifted += full[start + n + 9 * g:start + n + 9 * g + 9]
                shifted.append(full[-1])
                if got == [fmt(x) for x in shifted]:
                    V.violation('dim2:columns-after-vz-shifted-by-one', dict(detail, expected=want))
                    continue
            if len(got) != len(want):
                V.violation('number-of-values-differs-from-the-header:%s' % label, dict(detail, expected=want))
            else:
                bad = [names[j] for j in range(len(want)) if got[j] != want[j]]
                V.violation('printed-value-differs-from-the-library:%s:%s' % (label, bad[0].split('-')[0].split('[')[0].rstrip('0123456789')), dict(detail, expected=want, columns=bad[:6]))
        V.sample({'wb': r['wb'], 'spec': base['spec'], 'header': header, 'first_row': rows_out[0] if rows_out else None}, limit=4)
    return V.finish(floor_nontrivial=150 if tier == 'quick' else 4500, floor_evaluations=600)
