"""C01 - query answers are a pure function of file and query (DESIGN.md section 4, C01).

History + executable model: a history of mixed calls on a world (with other worlds alive in the
process) is checked block by block against a dictionary filled from stand-alone single-property
calls on twin worlds in other processes."""
import random

from . import core, corpus, worldgen as wg

PID = 'C01'
GRAIN_K = [0, 1, 2, 3, 7]


def random_props(rng, ncomp, maxlen=8):
    n = rng.randint(1, maxlen)
    out = []
    for _ in range(n):
        r = rng.random()
        if r < 0.2:
            out.append((1, 0, 0))
        elif r < 0.45:
            out.append((2, rng.randrange(ncomp + 1), 0))
        elif r < 0.7:
            out.append((3, rng.randrange(ncomp), rng.choice(GRAIN_K)))
        elif r < 0.85:
            out.append((4, 0, 0))
        else:
            out.append((5, 0, 0))
    return out


def build_world_cases(rng, wid, wfile, files, ctx, pts3, cross, ncomp, others, ncalls, sticky=0.0):
    """-> (history case, dictionary case, plan) ; plan lists per history command what to check"""
    hist = core.Case('h%s' % wid, files=files)
    hist.add('world', 1, 1, 0, 0, '-', wfile)
    for k, o in enumerate(others):
        hist.add('world', 10 + k, 1, 0, 0, '-', o)
    plan = []
    queries = []     # (dim, coords(tuple of hex), depth hex)
    for (sx, sy, d) in pts3:
        x, y, z = ctx.point(sx, sy, d)
        queries.append((3, (core.hx(x), core.hx(y), core.hx(z)), core.hx(d)))
    if cross:
        for _ in range(max(4, len(pts3) // 2)):
            d = rng.choice([0.0, rng.uniform(0, 3e5), rng.uniform(0, 8e5)])
            (x2, z2), _s = wg.section_query(ctx, cross, rng.uniform(-0.2, 1.2), d)
            queries.append((2, (core.hx(x2), core.hx(z2)), core.hx(d)))
    needed = set()
    done = []
    for i in range(ncalls):
        r = rng.random()
        if done and r < 0.15:
            # verbatim repetition of an earlier call
            j = rng.randrange(len(done))
            kind, q, props, idx0 = done[j]
            idx = hist.add(*cmd_for(kind, q, props))
            plan.append({'kind': kind, 'q': q, 'props': props, 'idx': idx, 'repeat_of': idx0})
            continue
        q = rng.choice(queries)
        if sticky and done and rng.random() < sticky:
            # stay at the depth of the previous call (another position): consecutive evaluations that agree in part of their arguments
            same = [x for x in queries if x[2] == done[-1][1][2] and x != done[-1][1]]
            if same:
                q = rng.choice(same)
        if r < 0.75:
            props = random_props(rng, ncomp)
            kind = 'q'
        elif r < 0.82:
            props = [(1, 0, 0)]
            kind = 't'
        elif r < 0.89:
            props = [(2, rng.randrange(ncomp + 1), 0)]
            kind = 'c'
        elif r < 0.96:
            props = [(3, rng.randrange(ncomp), rng.choice([1, 2, 3]))]
            kind = 'g'
        else:
            props = random_props(rng, ncomp)
            kind = 'size'
        idx = hist.add(*cmd_for(kind, q, props))
        plan.append({'kind': kind, 'q': q, 'props': props, 'idx': idx})
        if kind != 'size':
            done.append((kind, q, props, idx))
            for p in props:
                needed.add((q, p))
        if others and rng.random() < 0.2:
            # a query to another live world in between
            k = rng.randrange(len(others))
            hist.add('q3', 10 + k, core.hx(rng.uniform(0, 1e6)), core.hx(rng.uniform(0, 1e6)), core.hx(9e5), core.hx(1e5), '1,0,0;4,0,0')
    # dictionary: stand alone single property calls on a twin, shuffled, other process
    dic = core.Case('d%s' % wid, files={})
    dic.add('world', 1, 1, 0, 0, '-', wfile)
    needed = sorted(needed)
    rng.shuffle(needed)
    dplan = []
    for (q, p) in needed:
        idx = dic.add(*cmd_for('q', q, [p]))
        dplan.append((q, p, idx))
    # fresh worlds that have answered nothing else
    fresh = []
    for n, (q, p) in enumerate(needed[:2]):
        dic.add('world', 2 + n, 1, 0, 0, '-', wfile)
        c = cmd_for('q', q, [p])
        c = (c[0], 2 + n) + tuple(c[2:])
        idx = dic.add(*c)
        fresh.append((q, p, idx))
    return hist, dic, plan, dplan, fresh


def cmd_for(kind, q, props):
    dim, coords, d = q
    if kind == 'q':
        return ('q%d' % dim, 1) + coords + (d, core.props_str(props))
    if kind == 'size':
        return ('size', 1, core.props_str(props))
    if kind == 't':
        return ('t%d' % dim, 1) + coords + (d,)
    if kind == 'c':
        return ('c%d' % dim, 1) + coords + (d, props[0][1])
    if kind == 'g':
        return ('g%d' % dim, 1) + coords + (d, props[0][1], props[0][2])
    raise ValueError(kind)


def main(tier, seed, replay):
    core.build('asan')
    rng = random.Random(seed * 7919 + 1)
    V = core.Verdict(PID, tier, seed)
    V.coverage['rule'] = ('histories of 40-120 mixed calls (batched 3D/2D, convenience wrappers, output size, verbatim repeats, other worlds alive) on corpus and '
                          'generated non-random worlds; every stand-alone answer repeated with the world alone in a fresh process (bit-identical); '
                          'non-trivial = batched call with >= 2 properties of which >= 1 multi-valued (grains k>=2 or velocity) at a point inside >= 1 feature')
    n_corpus, n_gen = (60, 140) if tier == 'quick' else (130, 2400)
    scale = 1 if tier == 'quick' else 2
    files = [p for p in corpus.world_files() if not corpus.is_random(p)]
    rng.shuffle(files)
    descs = [d for d in (corpus.describe(p) for p in files) if d]
    descs = descs[:n_corpus]
    other_pool = [d['path'] for d in descs[:6]]
    jobs = []
    wid = 0
    for d in descs:
        wid += 1
        ctx = corpus.ctx_for(d)
        pts = corpus.sample_points(rng, d, 14)
        jobs.append(build_world_cases(rng, wid, d['path'], {}, ctx, pts, d['cross'], d['ncomp'], rng.sample(other_pool, rng.choice([0, 1, 2])), rng.randint(40, 120) * scale) + (d['path'],))
    for i in range(n_gen):
        wid += 1
        wrng = random.Random(rng.getrandbits(48))
        layered = i % 7 == 3
        wg.EXTRA['water'] = 0.4 if i % 3 == 0 else 0.0
        try:
            if layered:
                # the layered-water family: one slab (or oceanic plate) with 2-4 'tian water content' layers of different lithologies
                # (disjoint or overlapping), mostly a uniform temperature, so that consecutive evaluations meet identical clamped
                # pressures and temperatures in different layers: anything remembered between calls under a partial key shows
                w = wg.gen_world(wrng, {'nfeatures': 1, 'types': ['subducting plate', 'subducting plate', 'subducting plate', 'oceanic plate'], 'force_surface': False, 'cross_section': (wrng.random() < 0.3),
                                        'sections': False, 'segment_models': False, 'p_temperature': 1.0, 'p_composition': 0.0, 'p_grains': 0.2, 'p_velocity': 0.2,
                                        'allow_temperature': ['uniform', 'adiabatic']})
                f0 = w['json']['features'][0]
                t0 = w['truth']['features'][0]
                liths = ['sediment', 'MORB', 'gabbro', 'peridotite']
                wrng.shuffle(liths)
                nl = wrng.randint(2, 4)
                span = t0['thickness'] if f0['model'] == 'subducting plate' else min(t0['d1'], t0['d0'] + 3e5) - t0['d0']
                cuts = sorted(wrng.uniform(0.05, 0.95) for _ in range(nl - 1))
                edges = [0.0] + cuts + [1.0]
                models = []
                rho = wg.num(wrng, 2800, 3400) if wrng.random() < 0.7 else None      # mostly one density for all layers: same depth, same pressure
                for k in range(nl):
                    lo, hi = edges[k], edges[k + 1]
                    if wrng.random() < 0.3:
                        hi = min(1.0, hi + 0.3)          # overlapping layers
                    m = {'model': 'tian water content', 'compositions': [wrng.randrange(w['truth']['ncomp'])], 'lithology': liths[k], 'initial water content': wg.num(wrng, 0.5, 5.0),
                         'cutoff pressure': {'sediment': 1, 'MORB': 16, 'gabbro': 26, 'peridotite': 10}[liths[k]]}
                    if f0['model'] == 'subducting plate':
                        m['density'] = rho if rho is not None else wg.num(wrng, 2800, 3400)
                        m['min distance slab top'] = wg.R(lo * span)
                        m['max distance slab top'] = wg.R(hi * span)
                    else:
                        m['min depth'] = wg.R(t0['d0'] + lo * span)
                        m['max depth'] = wg.R(t0['d0'] + hi * span)
                    if wrng.random() < 0.3:
                        m['operation'] = wrng.choice(['replace', 'replace defined only', 'add'])
                    models.append(m)
                f0['composition models'] = models
            else:
                w = wg.gen_world(wrng, {'nfeatures': (1, 5), 'force_surface': (wrng.random() < 0.33), 'cross_section': (wrng.random() < 0.5)})
        finally:
            wg.EXTRA['water'] = 0.0
        fn = 'g%d.wb' % wid
        ctx = w['truth']['ctx']
        pts = wg.sample_points(wrng, w, 14, p_inside=0.9 if layered else 0.6)
        # siblings: points that share the depth (another position) or the position (another depth) with an earlier point, and shallow
        # depths where depth-derived quantities are clamped to one value: partial-key collisions for anything that remembers a result
        sib = []
        for (sx, sy, d) in pts[:6]:
            o = wrng.choice(pts)
            sib.append((o[0], o[1], d))
            sib.append((sx, sy, wrng.choice([d * 0.5, d + 2.0e4, 5.0e3, 1.0e4])))
            if layered and w['truth']['features'][0]['type'] == 'subducting plate':
                # the same depth, displaced towards / away from the dip point: another distance below the slab top, i.e. another layer
                dp = w['truth']['features'][0]['dip']
                ux, uy = dp[0] - sx, dp[1] - sy
                if ctx.sph:
                    ux = ((ux + 180.0) % 360.0) - 180.0
                L = (ux * ux + uy * uy) ** 0.5 or 1.0
                for _ in range(3):
                    step = wrng.choice([-1, 1]) * wrng.uniform(5e3, 6e4) / ctx.unit()
                    sib.append((wg.wrap_lon(ctx, sx + step * ux / L), sy + step * uy / L, d))
        pts += sib
        if w['truth']['globals']['force']:
            pts += [(p[0], p[1], 0.0) for p in pts[:4]]
        jobs.append(build_world_cases(wrng, wid, core.workfile(PID, fn), {fn: wg.dumps(w['json'])}, ctx, pts, w['truth']['cross'], w['truth']['ncomp'],
                                      rng.sample(other_pool, rng.choice([0, 0, 1, 2])), rng.randint(40, 120) * scale, sticky=0.5 if layered else 0.15) + (fn,))
    cases = []
    for j in jobs:
        cases.append(j[0])
        cases.append(j[1])
    core.run_cases('asan', cases, PID)
    # the stand-alone answers once more, every world alone in a fresh process: no other world has ever been alive there, so
    # state that outlives a world (function-local statics, globals) shows as a difference to the answers of the busy processes
    iso = [core.Case('iso_%s' % j[1].cid, list(j[1].cmds)) for j in jobs]
    core.run_cases('asan', iso, PID + '_iso', isolate=True)
    for (hist, dic, plan, dplan, fresh, label) in jobs:
        check_world(V, hist, dic, plan, dplan, fresh, label)
    for (j, ic) in zip(jobs, iso):
        dic, label = j[1], j[5]
        if ic.crash:
            V.crash(ic, label)
            continue
        if dic.crash or not dic.results or not ic.results:
            continue
        for k, (a, b) in enumerate(zip(dic.results, ic.results)):
            if a[0] == 'missing' or b[0] == 'missing':
                continue
            V.count()
            if a[0] != b[0] or (a[0] == 'ok' and a[1] != b[1]):
                V.violation('answer-depends-on-worlds-that-lived-earlier-in-the-process', {'world': label, 'command': dic.cmds[k], 'in_a_busy_process': a, 'alone_in_a_fresh_process': b})
                break
    return V.finish(floor_nontrivial=200 if tier == 'quick' else 2000, floor_evaluations=5000)


def check_world(V, hist, dic, plan, dplan, fresh, label):
    if hist.crash:
        V.crash(hist, label)
    if dic.crash:
        V.crash(dic, label)
    if hist.results[0][0] != 'ok' or dic.results[0][0] != 'ok':
        if hist.results[0][0] == 'ex' and dic.results[0][0] == 'ex':
            return   # not a valid world (C12's business)
        if hist.results[0][0] == 'missing' or dic.results[0][0] == 'missing':
            return
        V.violation('construction-outcome-differs-between-processes', {'world': label, 'hist': hist.results[0], 'dict': dic.results[0]})
        return
    table = {}
    for (q, p, idx) in dplan:
        table[(q, p)] = dic.results[idx]
    for (q, p, idx) in fresh:
        a = dic.results[idx]
        b = table[(q, p)]
        V.count()
        if a[0] == 'missing' or b[0] == 'missing':
            continue
        if a[0] != b[0] or (a[0] == 'ok' and not core.same_bits(core.hv(a[1]), core.hv(b[1]))):
            V.violation('fresh-world-answer-differs', {'world': label, 'query': q, 'property': p, 'fresh': a, 'twin': b})
    for step in plan:
        res = hist.results[step['idx']]
        if res[0] == 'missing':
            continue
        V.count()
        props = step['props']
        q = step['q']
        kind = step['kind']
        if kind == 'size':
            if res[0] != 'ok' or int(res[1]) != sum(core.block_sizes(props)):
                V.violation('output-size-wrong', {'world': label, 'props': props, 'got': res})
            continue
        if 'repeat_of' in step:
            first = hist.results[step['repeat_of']]
            if first[0] != 'missing' and (first[0] != res[0] or (res[0] == 'ok' and not core.same_bits(core.hv(first[1]), core.hv(res[1])))):
                V.violation('repeated-call-differs', {'world': label, 'query': q, 'props': props, 'first': first, 'again': res, 'kind': kind})
        expected = [table.get((q, p)) for p in props]
        if any(e is None or e[0] == 'missing' for e in expected):
            continue
        if res[0] != 'ok':
            # the batched call threw: some stand alone call must have thrown too
            if res[0] == 'ex' and any(e[0] == 'ex' for e in expected):
                continue
            V.violation('batched-call-throws-standalone-does-not', {'world': label, 'query': q, 'props': props, 'got': res})
            continue
        if any(e[0] != 'ok' for e in expected):
            V.violation('standalone-call-throws-batched-does-not', {'world': label, 'query': q, 'props': props, 'expected': expected})
            continue
        vals = core.hv(res[1])
        sizes = core.block_sizes(props)
        if len(vals) != sum(sizes):
            V.violation('result-length-differs-from-announced', {'world': label, 'query': q, 'props': props, 'len': len(vals), 'announced': sum(sizes)})
            continue
        blocks = core.split_blocks(vals, props)
        inside = False
        multi = False
        for p, blk, e in zip(props, blocks, expected):
            ev = core.hv(e[1])
            if p[0] == 4 and ev and ev[0] >= 0:
                inside = True
            if (p[0] == 3 and p[2] >= 2) or p[0] == 5:
                multi = True
            if not core.same_bits(blk, ev):
                key = 'block-differs:%s:dim%d:%s' % (kind, q[0], {1: 'temperature', 2: 'composition', 3: 'grains', 4: 'tag', 5: 'velocity'}[p[0]])
                if len(props) == 1:
                    key += ':single'
                V.violation(key, {'world': label, 'query': q, 'props': props, 'property': p, 'batched_block': [core.hx(v) for v in blk],
                                  'standalone': e[1], 'batched_values': blk, 'standalone_values': ev})
        if kind == 'q' and len(props) >= 2 and multi:
            # inside-ness from the tag of a stand alone query when the list has no tag: conservative, count only with a tag
            if inside:
                V.nontrivial((label, q, tuple(props)))
                V.sample({'world': label, 'query': q, 'props': props, 'values': vals[:12]})
