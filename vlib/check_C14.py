"""C14 - concurrent queries are race-free and gwb-grid output does not depend on -j (DESIGN.md C14)."""
import concurrent.futures
import hashlib
import os
import random
import re
import shutil
import subprocess

from . import core, corpus, worldgen as wg
from .check_C01 import random_props
from .check_C18 import gen_run

PID = 'C14'


def pool_file(rng, ctx, pts, cross, ncomp, n):
    lines = []
    for _ in range(n):
        sx, sy, d = rng.choice(pts)
        props = random_props(rng, ncomp, 5)
        if rng.random() < 0.4:
            # the full list, as the tools ask for it: every composition's models run (a random short list rarely names the one
            # composition a special model writes)
            props = [(1, 0, 0)] + [(2, k, 0) for k in range(min(ncomp, 6))] + [(3, 0, 3), (4, 0, 0), (5, 0, 0)]
        if cross and rng.random() < 0.3:
            (x2, z2), _s = wg.section_query(ctx, cross, rng.uniform(-0.2, 1.2), d)
            lines.append('2\t%s\t%s\t%s\t%s' % (core.hx(x2), core.hx(z2), core.hx(d), core.props_str(props)))
        else:
            x, y, z = ctx.point(sx, sy, d)
            lines.append('3\t%s\t%s\t%s\t%s\t%s' % (core.hx(x), core.hx(y), core.hx(z), core.hx(d), core.props_str(props)))
    return '\n'.join(lines) + '\n'


def dedupe_tsan(text):
    """-> {key: count}; key = report kind + the two outermost repository frames"""
    reports = {}
    for block in text.split('WARNING: ThreadSanitizer:')[1:]:
        kind = block.split('\n', 1)[0].strip().split('(')[0].strip()
        frames = re.findall(r'#\d+ (.+?) (/[^\s:]+):(\d+)', block)
        repo = [re.sub(r'[(<].*', '', f[0]).strip() + '@' + os.path.basename(f[1]) for f in frames if f[1].startswith(core.REPO) and 'wbmon' not in f[1]]
        key = kind + ':' + '|'.join(repo[:2])
        reports[key] = reports.get(key, 0) + 1
    return reports


def run_tool(args):
    exe, argv, cwd, flavour, logprefix = args
    env = core.san_env(flavour, logprefix if flavour == 'tsan' else None)
    try:
        p = subprocess.run([exe] + argv, cwd=cwd, env=env, stdout=subprocess.PIPE, stderr=subprocess.PIPE, text=True, timeout=900, errors='replace')
        return p.returncode, p.stderr
    except subprocess.TimeoutExpired:
        return 'timeout', ''


def main(tier, seed, replay):
    core.build('tsan')
    core.build('asan')
    rng = random.Random(seed * 99991 + 14)
    V = core.Verdict(PID, tier, seed)
    V.coverage['rule'] = ('(library) the ThreadSanitizer build of the monitor process: 2-32 threads behind a barrier, each running the same pool of mixed queries (half the threads in the same order, half shuffled) against one '
                          'world without random models (the pool of worlds covers every model plugin the repository inputs use, found by a greedy cover, plus generated worlds; points preselected inside features); every answer compared bitwise with the single threaded answer; ThreadSanitizer reports counted from the log (deduplicated by kind + repository frames); '
                          '(tool) gwb-grid (tsan and asan builds) with -j in {1,2,3,5,7,8,16,33,40} on grids whose node count is prime, smaller than the thread count, or large: every VTU byte-identical to the -j 1 file; '
                          '(self-test) a random-model world from 4 threads must produce a ThreadSanitizer report; non-trivial = (world, thread count) runs with overlapping calls, and (grid, -j) pairs')
    quick = tier == 'quick'
    workdir = os.path.join(core.WORK, PID)
    shutil.rmtree(workdir, ignore_errors=True)
    os.makedirs(workdir)
    # ---------------------------------------------------------------- library
    n_corpus, n_gen = (4, 10) if quick else (60, 300)
    rounds = 2 if quick else 4
    files = [p for p in corpus.world_files() if not corpus.is_random(p)]
    rng.shuffle(files)
    all_descs = [d for d in (corpus.describe(p) for p in files) if d]
    # every (feature type, kind, model) plugin the corpus uses is in the pool (greedy cover), plus random further files; the query
    # points are preselected single threaded so that most of them are owned by a feature (a model is only run inside its feature)
    cover = corpus.covering_set(all_descs)
    descs = cover + [d for d in all_descs if d not in cover][:n_corpus]
    V.coverage['model_plugins_in_the_pool'] = sorted('%s/%s/%s' % t for t in set().union(*[corpus.model_signature(d) for d in descs]))
    jobs = []
    cases = []
    k = 0
    for d, pts in zip(descs, corpus.inside_points('asan', PID + '_scan', descs, rng, 1500 if quick else 6000, 24, 4)):
        ctx = corpus.ctx_for(d)
        jobs.append((d['path'], ctx, pts, d['cross'], d['ncomp']))
    for i in range(n_gen):
        wrng = random.Random(rng.getrandbits(48))
        wg.EXTRA['water'] = 0.5 if i % 2 else 0.0
        try:
            w = wg.gen_world(wrng, {'nfeatures': (1, 5)})
        finally:
            wg.EXTRA['water'] = 0.0
        fn = os.path.join(workdir, 'g%d.wb' % i)
        with open(fn, 'w') as f:
            f.write(wg.dumps(w['json']))
        jobs.append((fn, w['truth']['ctx'], wg.sample_points(wrng, w, 25, p_inside=0.8), w['truth']['cross'], w['truth']['ncomp']))
    # the plugin tour: single feature worlds, every kind of model present with its whole-feature range, generated until every
    # (feature type, kind, model) the generator knows (incl. tian water content) has its own world; 30 points inside the feature
    seen = set()
    ntour = 0
    wg.EXTRA['water'], wg.EXTRA['no_ranges'] = 0.5, True
    try:
        for attempt in range(400):
            wrng = random.Random(rng.getrandbits(48))
            ftype = wg.ALL_TYPES[attempt % len(wg.ALL_TYPES)]
            w = wg.gen_world(wrng, {'nfeatures': 1, 'types': [ftype], 'p_temperature': 1.0, 'p_composition': 1.0, 'p_grains': 1.0, 'p_velocity': 1.0, 'sections': False,
                                    'segment_models': False, 'exotic': False})
            sig = corpus.model_signature({'doc': w['json']})
            if not (sig - seen):
                continue
            seen |= sig
            fn = os.path.join(workdir, 'tour%d.wb' % ntour)
            ntour += 1
            with open(fn, 'w') as f:
                f.write(wg.dumps(w['json']))
            ft = w['truth']['features'][0]
            pts = [wg.point_in_feature(wrng, w['truth']['ctx'], ft) for _ in range(30)]
            jobs.append((fn, w['truth']['ctx'], pts, w['truth']['cross'], w['truth']['ncomp']))
    finally:
        wg.EXTRA['water'], wg.EXTRA['no_ranges'] = 0.0, False
    V.coverage['plugin_tour'] = {'worlds': ntour, 'model_plugins': sorted('%s/%s/%s' % t for t in seen)}
    # the surface tour: area features whose max depth is given at points with strongly different values, with the depth dependent
    # temperature models in their sentinel forms (adiabatic top / bottom): every thread works under another local bottom, so anything a
    # model remembers about "the" bottom of the feature between calls is shared state
    nsurf = 0
    wg.EXTRA['no_ranges'] = True
    try:
        for ftype in wg.AREA:
            for name in ('linear', 'adiabatic', 'chapman', 'uniform'):
                if name == 'chapman' and ftype != 'continental plate':
                    continue
                wrng = random.Random(rng.getrandbits(48))
                w = wg.gen_world(wrng, {'nfeatures': 1, 'types': [ftype], 'p_temperature': 1.0, 'allow_temperature': [name], 'p_composition': 1.0, 'p_grains': 0.5, 'p_velocity': 0.5,
                                        'exotic': False})
                f0, ft = w['json']['features'][0], w['truth']['features'][0]
                if any(q[0] == 0.0 or q[1] == 0.0 for q in ft['poly']):
                    continue
                for m in f0.get('temperature models', []):
                    if name == 'linear':
                        m['bottom temperature'] = -1
                        if wrng.random() < 0.5:
                            m['top temperature'] = -1
                    if name == 'chapman' and wrng.random() < 0.5:
                        m['top temperature'] = -1
                d0 = ft['d0']
                d1 = ft['d1'] if ft['d1'] < 1e300 else d0 + 3e5
                inner = [wg.point_in_poly_interior(wrng, ft['poly']) for _ in range(4)]
                f0['max depth'] = [[wg.R(d1)]] + [[wg.R(d0 + (d1 - d0) * fr), [[wg.R(q[0]), wg.R(q[1])]]] for fr, q in zip((0.45, 1.7, 0.8, 1.3), inner)]
                fn = os.path.join(workdir, 'surf%d.wb' % nsurf)
                nsurf += 1
                with open(fn, 'w') as f:
                    f.write(wg.dumps(w['json']))
                pts = []
                for _ in range(40):
                    q = wg.point_in_poly_interior(wrng, ft['poly'])
                    pts.append((wg.wrap_lon(w['truth']['ctx'], q[0]), q[1], wrng.uniform(d0, d0 + 0.44 * (d1 - d0))))
                jobs.append((fn, w['truth']['ctx'], pts, w['truth']['cross'], w['truth']['ncomp']))
    finally:
        wg.EXTRA['no_ranges'] = False
    V.coverage['surface_tour_worlds'] = nsurf
    plan = []
    for (path, ctx, pts, cross, ncomp) in jobs:
        k += 1
        poolfn = os.path.join(workdir, 'pool%d.txt' % k)
        with open(poolfn, 'w') as f:
            f.write(pool_file(rng, ctx, pts, cross, ncomp, 200))
        c = core.Case('s%d' % k)
        c.add('world', 1, 1, 0, 0, '-', path)
        threads = rng.sample([2, 4, 8, 16, 32], 2 if quick else 5)
        idx = [(t, c.add('stress', 1, poolfn, t, rounds, rng.randrange(1 << 30))) for t in threads]
        if k % 3 == 0:
            # the same pool (every call with its own property list) through properties_2d / properties_3d of the C interface
            c.add('c_create', 1, 1, -1, '-', path)
            idx.append((8, c.add('stress_c', 1, poolfn, 8, rounds, rng.randrange(1 << 30))))
        cases.append(c)
        plan.append((c, path, idx))
    # self test: a random-model world must make the detector speak
    rnd_world = next((p for p in corpus.world_files() if corpus.is_random(p) and corpus.describe(p)), None)
    selfc = core.Case('selftest')
    d = corpus.describe(rnd_world)
    poolfn = os.path.join(workdir, 'pool_self.txt')
    srng = random.Random(7)
    with open(poolfn, 'w') as f:
        ctx = corpus.ctx_for(d)
        lines = []
        for (sx, sy, dd) in corpus.sample_points(srng, d, 40):
            x, y, z = ctx.point(sx, sy, min(dd, 5e4))
            lines.append('3\t%s\t%s\t%s\t%s\t3,0,5;2,0,0;1,0,0' % (core.hx(x), core.hx(y), core.hx(z), core.hx(min(dd, 5e4))))
        f.write('\n'.join(lines) + '\n')
    selfc.add('world', 1, 1, 0, 0, '-', rnd_world)
    selfi = selfc.add('stress', 1, poolfn, 4, 3, 1)
    # one shard per case so that the tsan log of a case is its own
    core.run_cases('tsan', cases, PID, per_case_timeout=600, workers=min(core.NCPU, 8), keep=True)
    core.run_cases('tsan', [selfc], PID + '_self', per_case_timeout=600, workers=1)
    # collect tsan logs of the library runs
    text = ''
    for name in sorted(os.listdir(workdir)):
        if '.san' in name:
            with open(os.path.join(workdir, name), errors='replace') as f:
                text += f.read()
    reports = dedupe_tsan(text)
    for key, n in reports.items():
        V.violation('tsan:library:' + key, {'count': n, 'log_excerpt': text[text.find('WARNING: ThreadSanitizer'):][:3000]})
    stext = ''
    sdir = os.path.join(core.WORK, PID + '_self')
    for name in sorted(os.listdir(sdir)):
        if '.san' in name:
            with open(os.path.join(sdir, name), errors='replace') as f:
                stext += f.read()
    self_reports = dedupe_tsan(stext)
    V.coverage['selftest_tsan_reports_on_a_random_model_world'] = sum(self_reports.values())
    V.coverage['selftest_answer_mismatches'] = None
    if selfc.results and selfc.results[selfi][0] == 'ok':
        mm = re.search(r'mismatches=(\d+)', selfc.results[selfi][1])
        V.coverage['selftest_answer_mismatches'] = int(mm.group(1)) if mm else None
    if not self_reports:
        V.inconclusive.append('detector self-test: ThreadSanitizer reported nothing on the known engine race of a random-model world')
    total_calls = 0
    max_open = 0
    for (c, path, idx) in plan:
        if c.crash:
            V.crash(c, path)
            continue
        if c.results[0][0] != 'ok':
            continue
        for (t, i) in idx:
            res = c.results[i]
            if res[0] != 'ok':
                V.violation('stress-run-failed', {'world': path, 'threads': t, 'res': res})
                continue
            kv = dict(x.split('=', 1) for x in res[1].split(' ') if '=' in x)
            V.count(int(kv['calls']))
            total_calls += int(kv['calls'])
            max_open = max(max_open, int(kv['max_open']))
            if int(kv['mismatches']) != 0:
                V.violation('concurrent-answer-differs-from-the-single-threaded-answer', {'world': path, 'threads': t, 'result': res[1]})
            if int(kv['overlapped']) > 0:
                V.nontrivial((path, t))
        V.sample({'world': path, 'runs': [(t, c.results[i][1]) for (t, i) in idx]}, limit=3)
    V.coverage['library_calls'] = total_calls
    V.coverage['max_simultaneously_open_calls'] = max_open
    V.coverage['tsan_reports_library'] = reports

    # ---------------------------------------------------------------- gwb-grid
    ngrids = 9 if quick else 45
    js = [1, 2, 3, 5, 7, 8, 16, 33, 40]
    gruns = []
    for i in range(ngrids):
        grng = random.Random(rng.getrandbits(48))
        r = gen_run(grng, 1000 + i, workdir)
        # node counts: prime / tiny / large
        mode = (0, 1, 0, 2, 0, 1, 0, 2, 0)[i % 9]
        sp = r['spec']
        if sp['grid_type'] in ('cartesian', 'chunk'):
            if mode == 0:
                sp['n_cell_x'], sp['n_cell_y'], sp['n_cell_z'] = grng.choice([(1, 1, 1), (2, 1, 1), (1, 1, 2), (2, 2, 2), (3, 1, 2), (4, 1, 3), (2, 1, 2)])
            elif mode == 1:
                sp['n_cell_x'], sp['n_cell_y'], sp['n_cell_z'] = grng.choice([(12, 1, 6), (10, 2, 4), (6, 6, 6)])
            else:
                sp['n_cell_x'], sp['n_cell_y'], sp['n_cell_z'] = grng.choice([(30, 6, 12), (40, 4, 20), (36, 1, 30)])
            from .check_C18 import grid_text
            with open(os.path.join(r['dir'], 'grid.grid'), 'w') as f:
                f.write(grid_text(grng, sp))
        gruns.append(r)
    ref = {}

    def wave(tool_jobs):
        for (r, fl, j, d) in tool_jobs:
            os.makedirs(d)
            shutil.copy(os.path.join(r['dir'], 'world.wb'), d)
            shutil.copy(os.path.join(r['dir'], 'grid.grid'), d)
        with concurrent.futures.ThreadPoolExecutor(max_workers=4) as ex:
            outs = list(ex.map(run_tool, [(core.exe(fl, 'gwb-grid'), ['-j', str(j), '--filtered', '--by-tag', 'world.wb', 'grid.grid'], d, fl, os.path.join(d, 'tsan.log')) for (r, fl, j, d) in tool_jobs]))
        for (r, fl, j, d), (rc, err) in zip(tool_jobs, outs):
            V.count()
            base = {'dir': d, 'spec': r['spec'], 'flavour': fl, 'j': j, 'rc': rc, 'stderr_tail': err[-400:], 'nodes': r.get('nodes')}
            ttext = ''
            for name in os.listdir(d):
                if name.startswith('tsan.log'):
                    with open(os.path.join(d, name), errors='replace') as f:
                        ttext += f.read()
            for key, n in dedupe_tsan(ttext + (err if fl == 'tsan' else '')).items():
                V.violation('tsan:gwb-grid:' + key, dict(base, count=n, log_excerpt=(ttext + err)[:3000]))
            if rc == 'timeout':
                V.violation('gwb-grid-hangs', base)
                continue
            digest = {}
            for name in sorted(os.listdir(d)):
                if name.endswith('.vtu'):
                    with open(os.path.join(d, name), 'rb') as f:
                        data = f.read()
                    digest[name] = hashlib.sha256(data).hexdigest()
                    if j == 1 and name == 'world.vtu' and b'NumberOfPoints="' in data:
                        r['nodes'] = int(data.split(b'NumberOfPoints="')[1].split(b'"')[0])
            key = (r['i'], fl)
            if j == 1:
                ref[key] = (rc, digest)
                continue
            if key not in ref:
                continue
            if (rc, digest) != ref[key]:
                V.violation('gwb-grid-output-depends-on-the-thread-count', dict(base, files=sorted(digest), reference_files=sorted(ref[key][1]), reference_rc=ref[key][0]))
            elif digest:
                V.nontrivial(('grid', r['i'], fl, j))
        return len(tool_jobs)
    flavours = ('tsan', 'asan') if not quick else ('tsan',)
    nruns = wave([(r, fl, j, os.path.join(r['dir'], '%s_j%d' % (fl, j))) for r in gruns for fl in flavours for j in (js if not quick else [1, 2, 3, 7, 16, 40])])
    # second wave: thread counts chosen relative to the node count n of the small grids (n-1, n, n+1: one node per thread, idle threads;
    # around (n+1)/2: the left-over slice of the last thread holds one node or none)
    second = []
    rel = {}
    for r in gruns:
        n = r.get('nodes')
        if not n or n > 100:
            continue
        cand = sorted(set(j for j in (n - 1, n, n + 1, n // 2, (n + 1) // 2, (n + 1) // 2 + 1, n // 3 + 1) if 2 <= j <= 128) - set(js))
        rel[r['i']] = (n, cand)
        for fl in flavours:
            for j in cand:
                second.append((r, fl, j, os.path.join(r['dir'], '%s_j%d' % (fl, j))))
    nruns += wave(second)
    V.coverage['thread_counts_relative_to_node_count'] = [{'nodes': n, 'j': c} for (n, c) in list(rel.values())[:6]]
    tool_jobs = list(range(nruns))
    V.coverage['gwb_grid_runs'] = len(tool_jobs)
    return V.finish(floor_nontrivial=40 if quick else 400, floor_evaluations=20000)
