"""C16 - the C and C++ wrappers are transparent (DESIGN.md C16)."""
import os
import random

from . import core, corpus, worldgen as wg
from .check_C01 import random_props

PID = 'C16'
DECL = ['world_builder_declarations.schema.json', 'world_builder_declarations.tex', 'world_builder_declarations_open.md', 'world_builder_declarations_closed.md']


def main(tier, seed, replay):
    core.build('asan')
    rng = random.Random(seed * 31337 + 16)
    V = core.Verdict(PID, tier, seed)
    V.coverage['rule'] = ('same file/seed/points/property lists through the native World, the C functions and wrapper_cpp in one process (corpus incl. random-model worlds + generated worlds); '
                          'create_world with has_output_dir in {NULL,false,true} x output_dir in {NULL, relative dir} x seeds; non-trivial = comparisons at points inside a feature or on random-model worlds, '
                          'and create_world calls with a non-null output directory')
    n_corpus, n_gen = (50, 60) if tier == 'quick' else (130, 1200)
    files = corpus.world_files()
    rng.shuffle(files)
    descs = [d for d in (corpus.describe(p) for p in files) if d][:n_corpus]
    jobs = []
    wid = 0
    for d in descs:
        wid += 1
        ctx = corpus.ctx_for(d)
        jobs.append(build(rng, wid, d['path'], {}, ctx, corpus.sample_points(rng, d, 12), d['cross'], d['ncomp'], corpus.is_random(d['path'])))
    for i in range(n_gen):
        wid += 1
        wrng = random.Random(rng.getrandbits(48))
        rnd = wrng.random() < 0.3
        # random-model worlds: random grains models and (continental plates) the random composition model, the only random model the
        # C++ wrapper can reach; mostly continental plates there so that the seed matters for what every interface returns
        wg.EXTRA['random_composition'] = 0.8 if rnd else 0.0
        try:
            o = {'nfeatures': (1, 4), 'random_models': rnd, 'p_grains': 0.8 if rnd else 0.4}
            if rnd and wrng.random() < 0.7:
                o.update({'types': ['continental plate'], 'p_composition': 1.0, 'nfeatures': (1, 2)})
            w = wg.gen_world(wrng, o)
        finally:
            wg.EXTRA['random_composition'] = 0.0
        fn = 'g%d.wb' % wid
        jobs.append(build(wrng, wid, core.workfile(PID, fn), {fn: wg.dumps(w['json'])}, w['truth']['ctx'], wg.sample_points(wrng, w, 12, p_inside=0.8), w['truth']['cross'], w['truth']['ncomp'], rnd))
    core.run_cases('asan', [j[0] for j in jobs], PID)
    for (c, plan, meta) in jobs:
        check(V, c, plan, meta)
    return V.finish(floor_nontrivial=100 if tier == 'quick' else 1000, floor_evaluations=2000)


DECOY = '{"version":"1.1","potential mantle temperature":999.0,"features":[]}'


def build(rng, wid, path, files, ctx, pts, cross, ncomp, is_random):
    if files and rng.random() < 0.25:
        # the file name must reach the world as it is: a name that ends in blanks (or carries blanks inside) next to a decoy file
        # with the tidy name and another content
        (fn, content), = files.items()
        odd = rng.choice([fn + ' ', fn + '  ', fn.replace('.wb', ' .wb'), fn.replace('g', 'g g', 1) + ' '])
        files = {odd: content, fn: DECOY, odd.strip(): DECOY}
        path = path[:-len(fn)] + odd
    c = core.Case('w%d' % wid, files=files)
    seed = rng.choice([1, 1, 0, 7, 12345, 2 ** 31 + 3, 2 ** 32 - 1])
    has = rng.choice([-1, 0, 1])
    outdir = rng.choice(['-', 'out_%d/' % wid])
    meta = {'path': path, 'seed': seed, 'has': has, 'outdir': outdir, 'random': is_random, 'wid': wid}
    if outdir != '-':
        c.dirs.append(outdir)
    c.dirs.append('nat_%d/' % wid)
    c.dirs.append('cpp_%d/' % wid)
    plan = []
    # native reference: same flag; its own directory so that the expected file set is known
    i_n = c.add('world', 1, seed, 1 if has > 0 else 0, 0, 'nat_%d/' % wid, path)
    i_c = c.add('c_create', 1, seed, has, outdir, path)
    has_p = rng.choice([0, 1])
    i_p = c.add('p_create', 1, seed, has_p, 'cpp_%d/' % wid, path)
    meta['has_p'] = has_p
    plan.append(('create', i_n, i_c, i_p))
    queries = []
    for (sx, sy, d) in pts:
        x, y, z = ctx.point(sx, sy, d)
        queries.append((3, (core.hx(x), core.hx(y), core.hx(z)), core.hx(d)))
    if cross:
        for _ in range(6):
            d = rng.choice([0.0, rng.uniform(0, 3e5)])
            (x2, z2), _s = wg.section_query(ctx, cross, rng.uniform(-0.2, 1.2), d)
            queries.append((2, (core.hx(x2), core.hx(z2)), core.hx(d)))
    # random-model worlds: answers depend on the call sequence, so every world must see the same calls;
    # the C++ wrapper has no properties(): either all three get temperature/composition calls only, or the C++ wrapper is left out
    mode = rng.choice(['tc_only', 'no_cpp']) if is_random else 'all'
    meta['mode'] = mode
    for _ in range(40):
        dim, coords, d = rng.choice(queries)
        r = rng.random()
        if mode == 'tc_only':
            r = 0.5 + 0.5 * r
        if r < 0.5:
            props = random_props(rng, ncomp, 6)
            ps = core.props_str(props)
            a = c.add('q%d' % dim, 1, *coords, d, ps)
            b = c.add('c_q%d' % dim, 1, *coords, d, ps)
            plan.append(('q', a, b, None, props))
            if rng.random() < 0.3:
                plan.append(('size', c.add('size', 1, ps), c.add('c_size', 1, ps), None, props))
        elif r < 0.75:
            a = c.add('t%d' % dim, 1, *coords, d)
            b = c.add('c_t%d' % dim, 1, *coords, d)
            p = None
            if mode != 'no_cpp':
                p = c.add('p_t%d' % dim, 1, *coords, d) if rng.random() < 0.7 else c.add('p_t%dg' % dim, 1, *coords, d, core.hx(rng.uniform(1, 20)))
            plan.append(('t', a, b, p, None))
        else:
            n = rng.randrange(ncomp + 1)
            a = c.add('c%d' % dim, 1, *coords, d, n)
            b = c.add('c_c%d' % dim, 1, *coords, d, n)
            p = c.add('p_c%d' % dim, 1, *coords, d, n) if mode != 'no_cpp' else None
            plan.append(('c', a, b, p, None))
    c.add('c_release', 1)
    c.add('p_drop', 1)
    return c, plan, meta


def same(a, b):
    if a[0] != b[0]:
        return False
    if a[0] != 'ok':
        return True
    return core.same_bits(core.hv(a[1]), core.hv(b[1]))


def check(V, c, plan, meta):
    if c.crash:
        V.crash(c, meta)
        return
    create = plan[0]
    rn, rc, rp = c.results[create[1]], c.results[create[2]], c.results[create[3]]
    V.count()
    if not (rn[0] == rc[0] == rp[0]):
        V.violation('construction-outcome-differs', {'meta': meta, 'native': rn, 'c': rc, 'cpp': rp})
        return
    if rn[0] != 'ok':
        return
    # declaration files: exactly in the requested directory
    wd = os.path.join(core.WORK, PID)
    if meta['has'] > 0:
        V.nontrivial(('outdir', meta['wid']))
        target = wd if meta['outdir'] == '-' else os.path.join(wd, meta['outdir'])
        missing = [f for f in DECL if not os.path.exists(os.path.join(target, f))]
        if missing:
            stray = sorted(f for f in os.listdir(wd) if 'world_builder_declarations' in f)
            V.violation('create_world:output-directory-not-honoured', {'meta': meta, 'missing_in_target': missing, 'declaration_files_in_cwd': stray[:8]})
    if meta['has_p']:
        missing = [f for f in DECL if not os.path.exists(os.path.join(wd, 'cpp_%d' % meta['wid'], f))]
        if missing:
            V.violation('cpp-wrapper:output-directory-not-honoured', {'meta': meta, 'missing': missing})
    if meta['has'] <= 0 and meta['outdir'] != '-':
        if any(os.path.exists(os.path.join(wd, meta['outdir'], f)) for f in DECL):
            V.violation('create_world:files-written-without-flag', {'meta': meta})
    for step in plan[1:]:
        kind, a, b, p, props = step
        ra, rb = c.results[a], c.results[b]
        V.count()
        if ra[0] == 'missing' or rb[0] == 'missing':
            continue
        if not same(ra, rb):
            V.violation('c-api-differs:%s' % kind, {'meta': meta, 'native_cmd': c.cmds[a], 'native': ra, 'c': rb})
        if p is not None:
            rp2 = c.results[p]
            if rp2[0] != 'missing' and not same(ra, rp2):
                V.violation('cpp-wrapper-differs:%s' % kind, {'meta': meta, 'native_cmd': c.cmds[a], 'native': ra, 'cpp': rp2})
        if ra[0] == 'ok' and kind in ('q', 't', 'c'):
            v = core.hv(ra[1])
            inside = False
            if kind == 'q':
                for pr, blk in zip(props, core.split_blocks(v, props)):
                    if pr[0] == 4 and blk[0] >= 0:
                        inside = True
            if inside or meta['random']:
                V.nontrivial((meta['wid'], c.cmds[a]))
                V.sample({'meta': meta, 'cmd': c.cmds[a], 'native': ra[1][:80], 'c': rb[1][:80]})
