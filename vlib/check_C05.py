"""C05 - models documented by a closed-form expression return that expression (DESIGN.md C05).

Three oracles: (1) reference formulas written from the parameter documentation, (2) sentinel equivalence
("negative means use the global/adiabatic value"), (3) range restriction (outside the model's own min/max the
value painted so far is returned)."""
import math
import random

from . import core, worldgen as wg, slabref
from .common import world, ok, vals, q3, q3xyz, rel_close
from .check_C04 import plume_reference, AmbiguousAngle
from .check_C06 import gen_geometry

PID = 'C05'
PI = math.pi
YEAR = 60.0 * 60.0 * 24.0 * 365.25
AREA = ['continental plate', 'oceanic plate', 'mantle layer']
PROPS = [(1, 0, 0), (2, 0, 0), (2, 1, 0), (2, 2, 0), (5, 0, 0), (3, 0, 2), (3, 1, 3), (4, 0, 0)]


def adiabat(g, depth, Tp=None, alpha=None, cp=None):
    Tp = g['Tp'] if Tp is None else Tp
    alpha = g['alpha'] if alpha is None else alpha
    cp = g['cp'] if cp is None else cp
    return Tp * math.exp(((alpha * g['g']) / cp) * depth)


def euler_zxz(phi1, theta, phi2):
    """rotation matrix for z-x-z Euler angles in degrees (Bunge convention), used only to check orthonormality"""
    return None


# ------------------------------------------------------------------------------------------------
# area features

def gen_area_case(rng, sph, force=None):
    ctx = wg.gen_ctx(rng, sph, exotic=False)
    doc = {}
    g = wg.gen_globals(rng, ctx, doc, exotic=True, force_surface=False)
    ftype = rng.choice(AREA) if force is None else 'oceanic plate'
    if sph:
        cx, cy = wg.R(rng.uniform(-150, 150)), wg.R(rng.uniform(-40, 40))
        if rng.random() < (0.3 if force is None else 0.6):
            cx = wg.R(rng.choice([-1, 1]) * rng.uniform(172, 180))      # across the date line: raw coordinates beyond +-180 on one side
        hw = wg.R(rng.uniform(5, 15))
    else:
        cx, cy = wg.num(rng, -1e6, 1e6), wg.num(rng, -1e6, 1e6)
        hw = wg.num(rng, 3e5, 1e6)
    poly = [(wg.R(cx - hw), wg.R(cy - hw)), (wg.R(cx + hw), wg.R(cy - hw)), (wg.R(cx + hw), wg.R(cy + hw)), (wg.R(cx - hw), wg.R(cy + hw))]
    d0 = 0.0 if rng.random() < 0.4 else wg.num(rng, 1e3, 1e5)
    d1 = wg.R(d0 + wg.num(rng, 5e4, 3e5))
    f = {'model': ftype, 'name': 'the feature', 'coordinates': [list(p) for p in poly], 'max depth': d1}
    if d0 > 0 or rng.random() < 0.3:
        f['min depth'] = d0
    # model range: none / inside / wider / overlapping
    r = rng.random()
    if r < 0.3:
        m0, m1 = None, None
    elif r < 0.6:
        m0 = wg.R(d0 + rng.uniform(0.05, 0.4) * (d1 - d0))
        m1 = wg.R(d0 + rng.uniform(0.6, 0.95) * (d1 - d0))
    elif r < 0.8:
        m0 = wg.R(max(0.0, d0 - rng.uniform(0, 0.5) * (d1 - d0)))
        m1 = wg.R(d1 + rng.uniform(0, 0.5) * (d1 - d0))
    else:
        m0 = wg.R(d0 + rng.uniform(0.05, 0.4) * (d1 - d0))
        m1 = wg.R(d1 + rng.uniform(0.1, 0.5) * (d1 - d0))
    kind = rng.choice(['temperature', 'temperature', 'temperature', 'composition', 'velocity', 'grains']) if force is None else 'temperature'
    tmodels = {'continental plate': ['uniform', 'linear', 'adiabatic', 'chapman'], 'mantle layer': ['uniform', 'linear', 'adiabatic'],
               'oceanic plate': ['uniform', 'linear', 'adiabatic', 'half space model', 'plate model', 'plate model constant age']}[ftype]
    m = {}
    spec = {'kind': kind, 'ftype': ftype, 'd0': d0, 'd1': d1, 'g': g, 'sph': sph}
    need_max = False
    sentinel = False
    if kind == 'temperature':
        name = rng.choice(tmodels) if force is None else rng.choice(['half space model', 'plate model'])
        m['model'] = name
        spec['name'] = name
        if name == 'uniform':
            spec['T'] = m['temperature'] = wg.num(rng, 200, 2500)
        elif name == 'linear':
            spec['Tt'] = m['top temperature'] = wg.num(rng, 200, 1200) if rng.random() < 0.7 else -1.0
            spec['Tb'] = m['bottom temperature'] = wg.num(rng, 1000, 2500) if rng.random() < 0.7 else -1.0
            sentinel = spec['Tt'] < 0 or spec['Tb'] < 0
            need_max = True
        elif name == 'adiabatic':
            for key, k2, lo, hi in (('potential mantle temperature', 'Tp', 1200, 2000), ('thermal expansion coefficient', 'alpha', 1e-5, 6e-5), ('specific heat', 'cp', 800, 1500)):
                rr = rng.random()
                if rr < 0.4:
                    spec[k2] = m[key] = wg.num(rng, lo, hi)
                elif rr < 0.6:
                    m[key] = -1.0
                    sentinel = True
        elif name == 'chapman':
            spec['Tt'] = m['top temperature'] = wg.num(rng, 200, 400) if rng.random() < 0.7 else -1.0
            sentinel = spec['Tt'] < 0
            spec['q'] = m['top heat flux'] = wg.num(rng, 0.03, 0.09)
            spec['k'] = m['thermal conductivity'] = wg.num(rng, 1.5, 4.0)
            spec['A'] = m['heat generation per unit volume'] = wg.num(rng, 0.0, 2e-6)
        else:
            spec['Tt'] = m['top temperature'] = wg.num(rng, 250, 350)
            spec['Tb'] = m['bottom temperature'] = wg.num(rng, 1400, 1900) if rng.random() < 0.7 else -1.0
            sentinel = spec['Tb'] < 0
            need_max = True
            if name == 'plate model constant age':
                spec['age'] = m['plate age'] = wg.num(rng, 1e4, 3e8)
            else:
                spec['u'] = m['spreading velocity'] = wg.num(rng, 0.005, 0.15)
                # a straight ridge: cartesian anywhere (long enough that every foot is interior), spherical along a meridian
                # through the footprint (query points then sit on the equator ... see points) or along the equator
                if not sph:
                    az = rng.uniform(0, PI)
                    rx, ry = wg.R(cx + rng.uniform(-1.5, 1.5) * hw), wg.R(cy + rng.uniform(-1.5, 1.5) * hw)
                    L = 20 * hw
                    ridge = [[wg.R(rx - L * math.cos(az)), wg.R(ry - L * math.sin(az))], [wg.R(rx + L * math.cos(az)), wg.R(ry + L * math.sin(az))]]
                    spec['ridge'] = ridge
                else:
                    if rng.random() < 0.5:
                        lon_r = wg.R(cx + rng.uniform(-1.2, 1.2) * hw)
                        ridge = [[lon_r, -60.0], [lon_r, 60.0]]
                        spec['ridge_mode'] = ('meridian', lon_r)
                    else:
                        ridge = [[wg.R(cx - 3 * hw), 0.0], [wg.R(cx + 3 * hw), 0.0]]
                        spec['ridge_mode'] = ('equator', 0.0)
                    spec['ridge'] = ridge
                m['ridge coordinates'] = [ridge]
                if rng.random() < 0.5:
                    # a spreading velocity per ridge point (linear along the ridge)
                    v0, v1 = wg.num(rng, 0.005, 0.15), wg.num(rng, 0.005, 0.15)
                    spec['u_ends'] = (v0, v1)
                    m['spreading velocity'] = [[0, [[v0, v1]]]]
    elif kind == 'composition':
        m['model'] = 'uniform'
        comps = rng.sample([0, 1, 2], rng.randint(1, 2))
        m['compositions'] = comps
        fr = [wg.num(rng, 0.05, 1.0) for _ in comps]
        if len(comps) > 1 or rng.random() < 0.6:
            m['fractions'] = fr
        else:
            fr = [1.0]
        spec['comps'] = dict(zip(comps, fr))
    elif kind == 'velocity':
        m['model'] = 'uniform raw'
        spec['v'] = m['velocity'] = [wg.num(rng, -0.1, 0.1) for _ in range(3)]
    else:
        m['model'] = 'uniform'
        comps = rng.sample([0, 1], rng.randint(1, 2))
        m['compositions'] = comps
        mats = [wg.rnd(wg.rot_matrix(rng)) for _ in comps]
        sizes = [wg.num(rng, 0.01, 1.0) if rng.random() < 0.6 else -1.0 for _ in comps]
        m['rotation matrices'] = mats
        m['grain sizes'] = sizes
        spec['grains'] = {c: (mats[i], sizes[i]) for i, c in enumerate(comps)}
    if m0 is not None:
        m['min depth'] = m0
        m['max depth'] = m1
        series = kind == 'temperature' and spec.get('name') in ('half space model', 'plate model', 'plate model constant age')
        if not series and force is None and rng.random() < 0.3:
            # the model's own range as surfaces: values listed at every polygon corner and one interior point sample an affine function
            # of the surface coordinates (reproduced exactly by the piecewise linear interpolation); min, max or both
            span = d1 - d0

            def affine(base):
                return (base, rng.uniform(-1, 1) * 0.1 * span / hw, rng.uniform(-1, 1) * 0.1 * span / hw, cx, cy)

            def table(fn):
                pts = [tuple(p) for p in poly] + [(wg.R(cx + rng.uniform(-0.5, 0.5) * hw), wg.R(cy + rng.uniform(-0.5, 0.5) * hw))]
                return [[wg.R(fn[0])]] + [[wg.R(fn[0] + fn[1] * (px - fn[3]) + fn[2] * (py - fn[4])), [[px, py]]] for (px, py) in pts]
            which = rng.choice(['min', 'max', 'both'])
            if which in ('min', 'both') and m0 - 0.1 * span > 0 and not any(p[0] == 0.0 or p[1] == 0.0 for p in poly):
                spec['m0_fn'] = affine(m0)
                m['min depth'] = table(spec['m0_fn'])
            if which in ('max', 'both') and not any(p[0] == 0.0 or p[1] == 0.0 for p in poly):
                spec['m1_fn'] = affine(m1)
                m['max depth'] = table(spec['m1_fn'])
    elif need_max:
        m1 = d1 if rng.random() < 0.5 else wg.R(d1 * rng.uniform(1.0, 1.5))
        m['max depth'] = m1
        m0 = 0.0
    spec['m0'] = 0.0 if m0 is None else m0
    spec['m1'] = wg.DBL_MAX if m1 is None else m1
    spec['sentinel'] = sentinel
    spec['narrow'] = m0 is not None and (spec['m0'] > d0 or spec['m1'] < d1)
    f[kind + ' models'] = [m]
    if kind == 'composition' and rng.random() < 0.5:
        base = [wg.num(rng, 0.05, 1.0) for _ in range(3)]
        f[kind + ' models'] = [{'model': 'uniform', 'compositions': [0, 1, 2], 'fractions': base}, m]
        spec['base'] = base
    series_model = kind == 'temperature' and spec.get('name') in ('half space model', 'plate model', 'plate model constant age')
    if force is None and not series_model and rng.random() < 0.3 and not any(p[0] == 0.0 or p[1] == 0.0 for p in poly):
        # the FEATURE's own depth bounds as surfaces sampling an affine function (corners + one interior point): the model then works
        # between the local top and bottom, i.e. max(feature, model) and min(feature, model) evaluated below the query point
        fspan = d1 - d0

        def f_affine(base):
            return (base, rng.uniform(-1, 1) * 0.1 * fspan / hw, rng.uniform(-1, 1) * 0.1 * fspan / hw, cx, cy)

        def f_table(fn):
            tp = [tuple(p) for p in poly] + [(wg.R(cx + rng.uniform(-0.5, 0.5) * hw), wg.R(cy + rng.uniform(-0.5, 0.5) * hw))]
            return [[wg.R(fn[0])]] + [[wg.R(fn[0] + fn[1] * (px - fn[3]) + fn[2] * (py - fn[4])), [[px, py]]] for (px, py) in tp]
        fwhich = rng.choice(['min', 'max', 'max', 'both'])
        if fwhich in ('max', 'both'):
            spec['d1_fn'] = f_affine(d1)
            f['max depth'] = f_table(spec['d1_fn'])
        if fwhich in ('min', 'both') and d0 - 0.1 * fspan > 0:
            spec['d0_fn'] = f_affine(d0)
            f['min depth'] = f_table(spec['d0_fn'])
    doc['features'] = [f]
    # points
    pts = []
    for _ in range(30):
        if sph and kind == 'temperature' and spec.get('ridge_mode'):
            mode, val = spec['ridge_mode']
            if mode == 'meridian':
                sx, sy = rng.uniform(cx - 0.9 * hw, cx + 0.9 * hw), 0.0
                if abs(cy) > 0.9 * hw:
                    continue
            else:
                sx, sy = rng.uniform(cx - 0.9 * hw, cx + 0.9 * hw), rng.uniform(cy - 0.9 * hw, cy + 0.9 * hw)
        else:
            sx, sy = rng.uniform(cx - 0.9 * hw, cx + 0.9 * hw), rng.uniform(cy - 0.9 * hw, cy + 0.9 * hw)
        d = rng.uniform(d0, d1) if rng.random() < 0.9 else rng.choice([d0, d1])
        fns = [spec[k] for k in ('m0_fn', 'm1_fn') if k in spec]
        if fns and rng.random() < 0.5:
            # around the local bound of a range given as a surface
            b, bx, by, xm, ym = rng.choice(fns)
            d = b + bx * (sx - xm) + by * (sy - ym) + rng.uniform(-0.15, 0.15) * (d1 - d0)
            d = max(d0, min(d1, d))
        pts.append((sx, sy, d))
    return doc, ctx, spec, pts, (cx, cy, hw)


def ridge_distance(spec, ctx, sx, sy, model_min_depth):
    if not spec['sph']:
        (ax, ay), (bx, by) = spec['ridge']
        ex, ey = bx - ax, by - ay
        L = math.hypot(ex, ey)
        return abs((sx - ax) * ey - (sy - ay) * ex) / L
    mode, val = spec['ridge_mode']
    rad = ctx.R - model_min_depth
    if mode == 'meridian':
        return rad * abs(math.radians(sx - val))
    return rad * abs(math.radians(sy))


def spreading_velocity(spec, sx, sy):
    """m/yr at the foot of the point on the ridge: constant, or linear between the two ridge points"""
    if 'u_ends' not in spec:
        return spec['u']
    v0, v1 = spec['u_ends']
    (ax, ay), (bx, by) = spec['ridge']
    if not spec['sph']:
        ex, ey = bx - ax, by - ay
        t = ((sx - ax) * ex + (sy - ay) * ey) / (ex * ex + ey * ey)
    elif spec['ridge_mode'][0] == 'meridian':
        t = (sy - ay) / (by - ay)
    else:
        t = (sx - ax) / (bx - ax)          # sx is the raw longitude on the same branch as the ridge coordinates
    t = max(0.0, min(1.0, t))
    return v0 + (v1 - v0) * t


def plate_series(z, L, Tt, Tb, term, nterms):
    """T = Tt + (Tb-Tt) [ z/L + sum 2/(n pi) sin(n pi z/L) term(n) ]"""
    s = z / L
    for n in range(1, nterms + 1):
        s += (2.0 / (n * PI)) * math.sin(n * PI * z / L) * term(n)
    return Tt + (Tb - Tt) * s


def expected_area(spec, ctx, sx, sy, d):
    """-> dict prop -> expected block (list) or None (not judged); 'margin' True when too close to a range boundary"""
    g = spec['g']
    d0, d1, m0, m1 = spec['d0'], spec['d1'], spec['m0'], spec['m1']
    eps = 1e-9 * max(d1, 1.0)
    fsurf = False
    if 'd0_fn' in spec:
        b, bx, by, xm, ym = spec['d0_fn']
        d0 = b + bx * (sx - xm) + by * (sy - ym)
        fsurf = True
    if 'd1_fn' in spec:
        b, bx, by, xm, ym = spec['d1_fn']
        d1 = b + bx * (sx - xm) + by * (sy - ym)
        fsurf = True
    if fsurf:
        eps = 1e-7 * max(d1, 1.0)
        if not (d0 + eps < d < d1 - eps):
            return None          # outside the feature's local range (or on it): C04's business
    if 'm0_fn' in spec:
        b, bx, by, xm, ym = spec['m0_fn']
        m0 = b + bx * (sx - xm) + by * (sy - ym)
        eps = 1e-7 * max(d1, 1.0)
    if 'm1_fn' in spec:
        b, bx, by, xm, ym = spec['m1_fn']
        m1 = b + bx * (sx - xm) + by * (sy - ym)
        eps = 1e-7 * max(d1, 1.0)
    in_model = m0 <= d <= m1
    if min(abs(d - m0), abs(d - m1)) < eps:
        return None
    bg = adiabat(g, d)
    out = {}
    if 'm0_fn' in spec or 'm1_fn' in spec or fsurf:
        out['_surface'] = True      # nodal values carry 12 digits: the interpolated bound is the affine function to ~1e-12 only (and
                                    # the chapman polynomial cancels: 2.3e-10 observed on a value of 0.8 K)
    kind = spec['kind']
    if kind == 'temperature':
        name = spec['name']
        if not in_model:
            return {(1, 0, 0): [bg]}
        top = max(d0, m0)
        bot = min(d1, m1)
        if name == 'uniform':
            T = spec['T']
        elif name == 'linear':
            Tt = spec['Tt'] if spec['Tt'] >= 0 else adiabat(g, top)
            Tb = spec['Tb'] if spec['Tb'] >= 0 else adiabat(g, bot)
            T = Tt + (d - top) * ((Tb - Tt) / (bot - top))
        elif name == 'adiabatic':
            T = adiabat(g, d, spec.get('Tp'), spec.get('alpha'), spec.get('cp'))
        elif name == 'chapman':
            Tt = spec['Tt'] if spec['Tt'] >= 0 else adiabat(g, top)
            dz = d - top
            T = Tt + (spec['q'] / spec['k']) * dz - spec['A'] / (2.0 * spec['k']) * dz * dz
        else:
            Tb = spec['Tb'] if spec['Tb'] >= 0 else adiabat(g, d)
            Tt = spec['Tt']
            kappa = g['kappa']
            if name == 'plate model constant age':
                age = spec['age'] * 31557600.0
                L = m1
                T = plate_series(d, L, Tt, Tb, lambda n: math.exp(-1.0 * n * n * PI * PI * kappa * age / (L * L)), 100)
                Tconv = plate_series(d, L, Tt, Tb, lambda n: math.exp(-1.0 * n * n * PI * PI * kappa * age / (L * L)), 2000)
                out['_converged'] = Tconv
            else:
                dist = ridge_distance(spec, ctx, sx, sy, m0)
                if spec['sph'] and dist > 0:
                    # the library takes the great circle distance from the cosine of the angle: for a small angle theta its relative
                    # error is ~eps/theta^2 (observed 1.1e-12 at 0.18 degrees)
                    theta = dist / (ctx.R - m0)
                    out['_extra_tol'] = 1e-15 / (theta * theta)
                u = spreading_velocity(spec, sx, sy) / YEAR
                age = dist / u
                if name == 'half space model':
                    T = Tb + ((Tt - Tb) * math.erfc(d / (2.0 * math.sqrt(kappa * age))) if age > 0 else 0.0)
                else:
                    L = m1
                    Rn = (u * L) / (2.0 * kappa)

                    def term(n):
                        return math.exp((Rn - math.sqrt(Rn * Rn + n * n * PI * PI)) * ((u * age) / L))
                    T = plate_series(d, L, Tt, Tb, term, 100)
                    out['_converged'] = plate_series(d, L, Tt, Tb, term, 2000)
        out[(1, 0, 0)] = [T]
        return out
    if kind == 'composition':
        for c in (0, 1, 2):
            out[(2, c, 0)] = [spec['comps'].get(c, 0.0) if in_model else (spec['base'][c] if 'base' in spec else 0.0)]
        return out
    if kind == 'velocity':
        out[(5, 0, 0)] = list(spec['v']) if in_model else [0.0, 0.0, 0.0]
        return out
    for (p, k) in (((3, 0, 2), 2), ((3, 1, 3), 3)):
        c = p[1]
        if in_model and c in spec['grains']:
            mat, size = spec['grains'][c]
            s = size if size >= 0 else 1.0 / k
            out[p] = [s] * k + [e for _ in range(k) for row in mat for e in row]
        else:
            out[p] = [0.0] * (10 * k)
    return out


# ------------------------------------------------------------------------------------------------
# plumes

def gen_plume_case(rng, sph):
    ctx = wg.gen_ctx(rng, sph, exotic=False)
    doc = {}
    g = wg.gen_globals(rng, ctx, doc, exotic=True, force_surface=False)
    f, t = wg.gen_feature(rng, ctx, 'plume', 0, 1, {'p_temperature': 0, 'p_composition': 0, 'p_grains': 0, 'p_velocity': 0},
                          (wg.R(rng.uniform(-150, 150)), wg.R(rng.uniform(-40, 40)), wg.R(rng.uniform(3, 10))) if sph else None)
    depths = t['depths']
    spec = {'g': g, 't': dict(t, ctx=ctx), 'sph': sph}
    name = rng.choice(['gaussian', 'gaussian', 'uniform'])
    m = {'model': name}
    spec['name'] = name
    if name == 'gaussian':
        n = len(depths)
        md = list(depths)
        spec['md'] = md
        spec['Tc'] = m['centerline temperatures'] = [wg.num(rng, 1500, 2500) if rng.random() < 0.8 else -1.0 for _ in md]
        spec['sig'] = m['gaussian sigmas'] = [wg.num(rng, 0.1, 0.8) for _ in md]
        m['depths'] = md
        spec['sentinel'] = any(x < 0 for x in spec['Tc'])
        spec['narrow'] = False
    else:
        spec['T'] = m['temperature'] = wg.num(rng, 1500, 2500)
        spec['sentinel'] = False
        spec['m0'], spec['m1'] = 0.0, wg.DBL_MAX
        if rng.random() < 0.6:
            spec['m0'] = m['min depth'] = wg.R(depths[0] + rng.uniform(0, 5e4))
            spec['m1'] = m['max depth'] = wg.R(depths[-1] + rng.uniform(-5e4, 5e4))
        spec['narrow'] = 'min depth' in m
    f = dict(f)
    f['temperature models'] = [m]
    # the plume's other documented closed forms next to the temperature model: uniform composition, uniform grains (a negative grain
    # size means 1/N for N requested grains)
    pc = rng.sample([0, 1, 2], rng.randint(1, 2))
    pfr = [wg.num(rng, 0.05, 1.0) for _ in pc]
    f['composition models'] = [{'model': 'uniform', 'compositions': pc, 'fractions': pfr}]
    spec['pcomps'] = dict(zip(pc, pfr))
    gc = rng.sample([0, 1], rng.randint(1, 2))
    gm = [wg.rnd(wg.rot_matrix(rng)) for _ in gc]
    gs = [wg.num(rng, 0.01, 1.0) if rng.random() < 0.5 else -1.0 for _ in gc]
    f['grains models'] = [{'model': 'uniform', 'compositions': gc, 'rotation matrices': gm, 'grain sizes': gs}]
    spec['pgrains'] = {c: (gm[i], gs[i]) for i, c in enumerate(gc)}
    doc['features'] = [wg.strip(f)]
    pts = []
    for _ in range(40):
        d = rng.uniform(depths[0], min(t['d1'], depths[-1] + 2e5))
        i = 0
        while i < len(depths) - 1 and depths[i + 1] < d:
            i += 1
        c = t['coords'][i]
        rr = t['a'][i] * rng.uniform(0, 0.9)
        an = rng.uniform(0, 2 * PI)
        sx, sy = c[0] + rr * math.cos(an), c[1] + rr * math.sin(an)
        if sph:
            sx = ((sx + 180.0) % 360.0) - 180.0
        pts.append((sx, sy, d))
    return doc, ctx, spec, pts


def expected_plume(spec, sx, sy, d):
    out = _expected_plume_temperature(spec, sx, sy, d)
    if out is None:
        return None
    inside = out[(4, 0, 0)][0] == 0.0
    for c in (0, 1, 2):
        out[(2, c, 0)] = [spec['pcomps'].get(c, 0.0) if inside else 0.0]
    for (p, k) in (((3, 0, 2), 2), ((3, 1, 3), 3)):
        c = p[1]
        if inside and c in spec['pgrains']:
            mat, size = spec['pgrains'][c]
            sz = size if size >= 0 else 1.0 / k
            out[p] = [sz] * k + [e for _ in range(k) for row in mat for e in row]
        else:
            out[p] = [0.0] * (10 * k)
    return out


def _expected_plume_temperature(spec, sx, sy, d):
    t = spec['t']
    g = spec['g']
    inside, margin = plume_reference(t, sx, sy, d)
    if margin < 1e-6 or d < t['depths'][0]:
        return None
    if not inside:
        return {(1, 0, 0): [adiabat(g, d)], (4, 0, 0): [-1.0]}
    # ellipse fraction
    frac = ellipse_fraction(t, sx, sy, d)
    if spec['name'] == 'uniform':
        if min(abs(d - spec['m0']), abs(d - spec['m1'])) < 1e-6 * d:
            return None
        T = spec['T'] if spec['m0'] <= d <= spec['m1'] else adiabat(g, d)
        return {(1, 0, 0): [T], (4, 0, 0): [0.0]}
    md, Tc, sig = spec['md'], spec['Tc'], spec['sig']
    if d >= md[-1]:
        tc, sg = Tc[-1], sig[-1]
    else:
        i = 1
        while md[i] <= d:
            i += 1
        fr = (d - md[i - 1]) / (md[i] - md[i - 1])
        if (Tc[i - 1] < 0) != (Tc[i] < 0):
            return None          # interpolating between a sentinel and a temperature is not documented
        tc = (1 - fr) * Tc[i - 1] + fr * Tc[i]
        sg = (1 - fr) * sig[i - 1] + fr * sig[i]
    if tc < 0:
        tc = adiabat(g, d)
    return {(1, 0, 0): [tc * math.exp(-frac / (2.0 * sg * sg))], (4, 0, 0): [0.0], '_loose': True}


def ellipse_fraction(t, sx, sy, depth):
    depths, coords, a, e, ang = t['depths'], t['coords'], t['a'], t['e'], t['angles']
    if depth >= depths[-1]:
        c, A, E, alpha = coords[-1], a[-1], e[-1], ang[-1]
    else:
        i = 1
        while depths[i] <= depth:
            i += 1
        f = (depth - depths[i - 1]) / (depths[i] - depths[i - 1])
        c = ((1 - f) * coords[i - 1][0] + f * coords[i][0], (1 - f) * coords[i - 1][1] + f * coords[i][1])
        A = (1 - f) * a[i - 1] + f * a[i]
        E = (1 - f) * e[i - 1] + f * e[i]
        dd = ang[i] - ang[i - 1]
        if abs(abs(dd) - 180.0) < 1e-6:
            raise AmbiguousAngle()       # both ways round are 'the shortest way'
        if abs(dd) > 180.0:
            dd -= math.copysign(360.0, dd)
        alpha = ang[i - 1] + f * dd
    best = None
    for sh in ((0.0, 360.0, -360.0) if t['ctx'].sph else (0.0,)):
        dx, dy = sx + sh - c[0], sy - c[1]
        th = math.radians(alpha)
        u = dx * math.sin(th) + dy * math.cos(th)
        v = -dx * math.cos(th) + dy * math.sin(th)
        B = A * math.sqrt(1 - E * E)
        fr = (u * u) / (A * A) + (v * v) / (B * B)
        best = fr if best is None or fr < best else best
    return best


# ------------------------------------------------------------------------------------------------
# slabs and faults (cartesian straight trench, one or two identical sections)

def gen_line_case(rng):
    kind_f = rng.choice(['subducting plate', 'fault'])
    f, t = gen_geometry(rng, kind_f, False)
    # no truncation, moderate dips: the distance reference is unambiguous inside the body
    t['profile'] = slabref.build_profile(t['profile_spec'])
    ctx = wg.Ctx(False, 6371000.0, rng.choice([1.0e6, 2.9e6, 6371000.0]))
    doc = {}
    g = wg.gen_globals(rng, ctx, doc, exotic=True, force_surface=False)
    thick = min(min(tt[0], tt[1]) for tt in t['table'])
    fault = kind_f == 'fault'
    half = thick / 2 if fault else thick
    kmin, kmax = wg.range_keys(kind_f)
    kind = rng.choice(['temperature', 'temperature', 'composition', 'composition', 'velocity', 'grains'])
    m = {}
    spec = {'kind': kind, 'fault': fault, 'g': g, 'half': half, 't': t}
    r = rng.random()
    if r < 0.35:
        m0, m1 = None, None
    else:
        m0 = 0.0 if rng.random() < 0.4 else wg.R(rng.uniform(0.05, 0.3) * half)
        m1 = wg.R(rng.uniform(0.5, 1.3) * half)
    need_max = False
    sentinel = False
    if kind == 'temperature':
        name = rng.choice(['uniform', 'linear', 'adiabatic'])
        m['model'] = name
        spec['name'] = name
        if name == 'uniform':
            spec['T'] = m['temperature'] = wg.num(rng, 200, 2500)
        elif name == 'linear':
            spec['Tt'] = m['center temperature' if fault else 'top temperature'] = wg.num(rng, 200, 1200)
            spec['Tb'] = m['side temperature' if fault else 'bottom temperature'] = wg.num(rng, 1000, 2500)
            need_max = True
        else:
            for key, k2, lo, hi in (('potential mantle temperature', 'Tp', 1200, 2000), ('thermal expansion coefficient', 'alpha', 1e-5, 6e-5), ('specific heat', 'cp', 800, 1500)):
                rr = rng.random()
                if rr < 0.4:
                    spec[k2] = m[key] = wg.num(rng, lo, hi)
                elif rr < 0.6:
                    m[key] = -1.0
                    sentinel = True
    elif kind == 'composition':
        name = rng.choice(['uniform', 'smooth'])
        m['model'] = name
        spec['name'] = name
        comps = rng.sample([0, 1, 2], rng.randint(1, 2))
        m['compositions'] = comps
        if name == 'uniform':
            fr = [wg.num(rng, 0.05, 1.0) for _ in comps]
            m['fractions'] = fr
            spec['comps'] = dict(zip(comps, fr))
        else:
            a = [wg.num(rng, 0.5, 1.0) for _ in comps]
            b = [wg.num(rng, 0.05, 0.4) if rng.random() < 0.7 else 0.0 for _ in comps]
            spec['comps'] = {c: (a[i], b[i]) for i, c in enumerate(comps)}
            if fault:
                m['center fractions'], m['side fractions'] = a, b
                spec['side'] = m['side distance fault center'] = wg.R(rng.uniform(0.4, 1.0) * half)
                m0, m1 = None, None
            else:
                m['top fractions'], m['bottom fractions'] = a, b
                m0 = 0.0 if rng.random() < 0.5 else wg.R(rng.uniform(0.05, 0.3) * half)
                m1 = wg.R(rng.uniform(0.5, 1.0) * half)
                spec['side'] = abs(m1 - m0)
                need_max = True
    elif kind == 'velocity':
        m['model'] = 'uniform raw'
        spec['v'] = m['velocity'] = [wg.num(rng, -0.1, 0.1) for _ in range(3)]
    else:
        m['model'] = 'uniform'
        comps = rng.sample([0, 1], rng.randint(1, 2))
        m['compositions'] = comps
        mats = [wg.rnd(wg.rot_matrix(rng)) for _ in comps]
        sizes = [wg.num(rng, 0.01, 1.0) if rng.random() < 0.6 else -1.0 for _ in comps]
        m['rotation matrices'] = mats
        m['grain sizes'] = sizes
        spec['grains'] = {c: (mats[i], sizes[i]) for i, c in enumerate(comps)}
    if m0 is not None and not (kind == 'composition' and spec.get('name') == 'smooth' and fault):
        m[kmin], m[kmax] = m0, m1
    elif need_max:
        m1 = half
        m0 = 0.0
        m[kmax] = m1
    if kind == 'composition' and spec.get('name') == 'smooth' and fault:
        m0, m1 = 0.0, wg.DBL_MAX
    spec['m0'] = 0.0 if m0 is None else m0
    spec['m1'] = wg.DBL_MAX if m1 is None else m1
    spec['sentinel'] = sentinel
    spec['narrow'] = m0 is not None
    f = dict(f)
    f.pop('composition models', None)
    f[kind + ' models'] = [m]
    if kind == 'composition' and rng.random() < 0.5:
        # a base model in front (all three compositions, whole body): outside its own range the model under test must leave these
        # values alone; inside it overwrites the compositions it lists and (operation replace) clears the others
        base = [wg.num(rng, 0.05, 1.0) for _ in range(3)]
        f[kind + ' models'] = [{'model': 'uniform', 'compositions': [0, 1, 2], 'fractions': base, kmin: -1.0e7 if not fault else 0.0, kmax: 1.0e7}, m]
        spec['base'] = base
    doc['features'] = [f]
    # points inside the body: on the profile, offset along the normal
    pts = []
    prof = t['profile']
    for _ in range(40):
        gseg = rng.choice(prof)
        u = rng.uniform(0.08, 0.92)
        if gseg.kappa == 0.0:
            bh, bv, a = gseg.h0 + u * (gseg.h1 - gseg.h0), gseg.v0 + u * (gseg.v1 - gseg.v0), gseg.a0
        else:
            a = gseg.a0 + u * (gseg.a1 - gseg.a0)
            bh, bv = gseg.ch + math.sin(a) / gseg.kappa, gseg.cv - math.cos(a) / gseg.kappa
        off = rng.uniform(-0.48, 0.48) * thick if fault else rng.uniform(0.02, 0.98) * thick
        h, v = bh - math.sin(a) * off, bv + math.cos(a) * off
        depth = t['d0'] + v
        # |h| < 100 m: the trench foot error of the curve solver (up to ~1e-7 of the trench length along the trench) enters the distance as
        # foot_error^2 / (2|h|) and is no longer negligible against the 1e-9 tolerances below (observed 1.4e-4 m at |h| = 1.1 m); C06 judges
        # the geometry there
        if depth < 0 or depth > t['d1'] or abs(h) < 100.0:
            continue
        ff = rng.uniform(0.05, 0.95)
        fx = t['p0'][0] + ff * (t['p1'][0] - t['p0'][0])
        fy = t['p0'][1] + ff * (t['p1'][1] - t['p0'][1])
        pts.append({'q': (fx + t['n'][0] * h, fy + t['n'][1] * h, ctx.H - depth, depth), 'h': h, 'v': v})
    return doc, ctx, spec, pts


def expected_line(spec, p):
    t = spec['t']
    g = spec['g']
    ref = slabref.distances(t['profile'], p['h'], p['v'])
    rmin = min([gg.R for gg in t['profile'] if gg.kappa != 0.0] or [float('inf')])
    if not ref['found'] or ref['ambiguous'] or abs(ref['distance']) > 0.5 * rmin:
        return None
    inside, margin = slabref.member('fault' if spec['fault'] else 'slab', ref, t['table'], t['total'], p['q'][3], t['d0'], t['d1'])
    if not inside or margin < 1.0:
        return None
    dist = abs(ref['distance']) if spec['fault'] else ref['distance']
    m0, m1 = spec['m0'], spec['m1']
    if min(abs(dist - m0), abs(dist - m1)) < 1e-3:
        return None
    in_model = m0 <= dist <= m1
    d = p['q'][3]
    bg = adiabat(g, d)
    kind = spec['kind']
    out = {(4, 0, 0): [0.0]}
    if kind == 'temperature':
        if not in_model:
            out[(1, 0, 0)] = [bg]
        elif spec['name'] == 'uniform':
            out[(1, 0, 0)] = [spec['T']]
        elif spec['name'] == 'linear':
            out[(1, 0, 0)] = [spec['Tt'] + (dist - m0) * ((spec['Tb'] - spec['Tt']) / (m1 - m0))]
            out['_dist'] = True
        else:
            out[(1, 0, 0)] = [adiabat(g, d, spec.get('Tp'), spec.get('alpha'), spec.get('cp'))]
    elif kind == 'composition':
        for c in (0, 1, 2):
            if not in_model:
                out[(2, c, 0)] = [spec['base'][c] if 'base' in spec else 0.0]
            elif spec['name'] == 'uniform':
                out[(2, c, 0)] = [spec['comps'].get(c, 0.0)]
            else:
                if c not in spec['comps']:
                    out[(2, c, 0)] = [0.0]
                    continue
                a, b = spec['comps'][c]
                D = spec['side']
                s = (1.0 - math.tanh(10.0 * (dist - D / 2.0 - (0.0 if spec['fault'] else m0)) / D)) / 2.0
                out[(2, c, 0)] = [b + (a - b) * s]
                out['_dist'] = True
                out['_smooth'] = (a, b, s)
    elif kind == 'velocity':
        out[(5, 0, 0)] = list(spec['v']) if in_model else [0.0, 0.0, 0.0]
    else:
        for (pp, k) in (((3, 0, 2), 2), ((3, 1, 3), 3)):
            c = pp[1]
            if in_model and c in spec['grains']:
                mat, size = spec['grains'][c]
                s = size if size >= 0 else 1.0 / k
                out[pp] = [s] * k + [e for _ in range(k) for row in mat for e in row]
            # where no grains model applies the slab/fault code still passes the zero matrices painted so far through its
            # quaternion interpolation (they come back as identity matrices); the properties do not say what an orientation
            # "as it was" is for a zero matrix, so this case is not judged
    return out


# ------------------------------------------------------------------------------------------------
# sentinel equivalence / effect of local parameters (metamorphic)

SENTINEL_PARAMS = [('potential mantle temperature', 'potential mantle temperature', 1200, 2000),
                   ('thermal expansion coefficient', 'thermal expansion coefficient', 1e-5, 6e-5),
                   ('specific heat', 'specific heat', 800, 1500)]


def gen_sentinel_family(rng):
    """a world whose only temperature model documents 'negative = global value' for a parameter:
    A = {local X, global X}, B = {local -1, global X}, C = {local X, global G != X}, D = {local -1, global G}.
    A == B (sentinel means the global value) and C == A inside the feature at replace (the local value is what is used)."""
    mode = rng.choice(['area', 'area', 'slab-adiabatic', 'mass conserving', 'slab plate model', 'fault-adiabatic'])
    pkey, gkey, lo, hi = rng.choice(SENTINEL_PARAMS)
    if mode == 'mass conserving' and rng.random() < 0.25:
        pkey, gkey, lo, hi = 'thermal diffusivity', 'thermal diffusivity', 0.5e-6, 1.5e-6
    X = wg.num(rng, lo, hi)
    G = wg.num(rng, lo, hi)
    while abs(G - X) < 0.05 * X:
        G = wg.num(rng, lo, hi)
    if mode == 'area':
        ftype = rng.choice(AREA)
        f = {'model': ftype, 'name': 'the feature', 'coordinates': [[-1e6, -1e6], [1e6, -1e6], [1e6, 1e6], [-1e6, 1e6]], 'max depth': 3e5}
        model = {'model': 'adiabatic'}
        ctx = wg.Ctx(False, 6371000.0, 1.0e6)
        pts = [(rng.uniform(-9e5, 9e5), rng.uniform(-9e5, 9e5), rng.uniform(1e3, 2.9e5)) for _ in range(12)]
        queries = [ctx.point(*p) + (p[2],) for p in pts]
    else:
        kind_f = 'fault' if mode.startswith('fault') else 'subducting plate'
        f, t = gen_geometry(rng, kind_f, False)
        f = dict(f)
        f.pop('composition models', None)
        t['profile'] = slabref.build_profile(t['profile_spec'])
        ctx = wg.Ctx(False, 6371000.0, 2.0e6)
        thick = min(min(tt[0], tt[1]) for tt in t['table'])
        if mode.endswith('adiabatic'):
            model = {'model': 'adiabatic'}
        elif mode == 'mass conserving':
            model = {'model': 'mass conserving', 'spreading velocity': wg.num(rng, 0.02, 0.1), 'subducting velocity': wg.num(rng, 0.02, 0.1),
                     'min distance slab top': wg.R(-0.5 * thick), 'max distance slab top': wg.R(1.2 * thick),
                     'ridge coordinates': [[[wg.R(t['p0'][0] - t['n'][0] * 2e6 - t['e'][0] * 3e6), wg.R(t['p0'][1] - t['n'][1] * 2e6 - t['e'][1] * 3e6)],
                                            [wg.R(t['p1'][0] - t['n'][0] * 2e6 + t['e'][0] * 3e6), wg.R(t['p1'][1] - t['n'][1] * 2e6 + t['e'][1] * 3e6)]]]}
        else:
            model = {'model': 'plate model', 'plate velocity': wg.num(rng, 0.02, 0.1)}
        queries = []
        prof = t['profile']
        for _ in range(14):
            gseg = rng.choice(prof)
            u = rng.uniform(0.1, 0.9)
            if gseg.kappa == 0.0:
                bh, bv, a = gseg.h0 + u * (gseg.h1 - gseg.h0), gseg.v0 + u * (gseg.v1 - gseg.v0), gseg.a0
            else:
                a = gseg.a0 + u * (gseg.a1 - gseg.a0)
                bh, bv = gseg.ch + math.sin(a) / gseg.kappa, gseg.cv - math.cos(a) / gseg.kappa
            off = (rng.uniform(-0.4, 0.4) if kind_f == 'fault' else rng.uniform(0.1, 0.9)) * thick
            h, v = bh - math.sin(a) * off, bv + math.cos(a) * off
            depth = t['d0'] + v
            if depth < 1e3 or depth > t['d1'] or abs(h) < 100.0:
                continue
            ff = rng.uniform(0.1, 0.9)
            fx = t['p0'][0] + ff * (t['p1'][0] - t['p0'][0])
            fy = t['p0'][1] + ff * (t['p1'][1] - t['p0'][1])
            queries.append((fx + t['n'][0] * h, fy + t['n'][1] * h, ctx.H - depth, depth))
    docs = {}
    for name, local, glob in (('A', X, X), ('B', -1.0, X), ('C', X, G), ('D', -1.0, G)):
        m = dict(model)
        m[pkey] = local
        ff = dict(f)
        ff['temperature models'] = [m]
        docs[name] = {'version': '1.1', gkey: glob, 'features': [ff]}
    return {'mode': mode, 'param': pkey, 'X': X, 'G': G, 'docs': docs, 'queries': queries}


# ------------------------------------------------------------------------------------------------

def compare(V, key_prefix, label, p, exp, got, props, tol, detail):
    for pr in props:
        if pr not in exp:
            continue
        e = exp[pr]
        i = props.index(pr)
        gblock = got[i]
        if len(e) != len(gblock):
            V.violation(key_prefix + ':block-length', dict(detail, prop=pr, expected=e, got=gblock))
            continue
        ptol = tol
        if pr[0] == 3 and ('fault' in key_prefix or 'subducting' in key_prefix):
            ptol = 1e-9     # slab/fault grains pass through a quaternion interpolation between the two sections
        for a, b in zip(gblock, e):
            if not rel_close(a, b, ptol, 1e-12 if pr[0] == 3 else (1e-9 if tol >= 1e-9 and pr[0] == 2 else 1e-300)):
                name = {1: 'temperature', 2: 'composition', 3: 'grains', 4: 'tag', 5: 'velocity'}[pr[0]]
                key = '%s:%s' % (key_prefix, name)
                if pr[0] == 5 and ('fault' in key_prefix or 'subducting' in key_prefix) and gblock[0] == e[0] and gblock[1] == e[1] and e == [0.0, 0.0, 0.0] and gblock[2] == 2.0:
                    key = 'line-feature-velocity:no-model-applies:z-velocity-seeded-with-x-velocity-plus-2'
                V.violation(key, dict(detail, prop=pr, expected=e[:12], got=gblock[:12]))
                break


def main(tier, seed, replay):
    core.build('asan')
    rng = random.Random(seed * 3571 + 5)
    V = core.Verdict(PID, tier, seed)
    V.coverage['rule'] = ('single-feature single-model worlds (replace) at interior points: every listed model x every feature type offering it, both coordinate systems, parameters over the schema domain incl. '
                          'sentinels and model ranges narrower/wider than the feature; reference formulas from the parameter documentation (1e-12 relative, 1e-9 for the series); sentinel equivalence families '
                          '{local X, global X} = {local -1, global X}, {local X, global G} = {local X, global X}; non-trivial = parameter sets with >= 1 sentinel or a model range strictly inside the feature')
    scale = 1 if tier == 'quick' else 40
    jobs = []
    for i in range(520 * scale):
        wrng = random.Random(rng.getrandbits(48))
        sph = wrng.random() < (0.4 if i < 450 * scale else 0.7)
        # the last 70 per scale: oceanic plates with a ridge model (ridge geometry x velocity form x date line are too many factors
        # to meet by chance among all area models)
        doc, ctx, spec, pts, box = gen_area_case(wrng, sph, None if i < 450 * scale else 'ridge')
        fn = 'a%d.wb' % i
        c = core.Case('a%d' % i, files={fn: wg.dumps(doc)})
        world(c, 1, core.workfile(PID, fn))
        plan = [((sx, sy, d), q3(c, 1, ctx, sx, sy, d, PROPS)) for (sx, sy, d) in pts]
        jobs.append(('area', c, ctx, spec, plan, fn, doc))
    for i in range(150 * scale):
        wrng = random.Random(rng.getrandbits(48))
        sph = wrng.random() < 0.4
        doc, ctx, spec, pts = gen_plume_case(wrng, sph)
        fn = 'p%d.wb' % i
        c = core.Case('p%d' % i, files={fn: wg.dumps(doc)})
        world(c, 1, core.workfile(PID, fn))
        plan = [((sx, sy, d), q3(c, 1, ctx, sx, sy, d, PROPS)) for (sx, sy, d) in pts]
        jobs.append(('plume', c, ctx, spec, plan, fn, doc))
    for i in range(350 * scale):
        wrng = random.Random(rng.getrandbits(48))
        doc, ctx, spec, pts = gen_line_case(wrng)
        fn = 'l%d.wb' % i
        c = core.Case('l%d' % i, files={fn: wg.dumps(doc)})
        world(c, 1, core.workfile(PID, fn))
        plan = [(p, q3xyz(c, 1, p['q'][0], p['q'][1], p['q'][2], p['q'][3], PROPS)) for p in pts]
        jobs.append(('line', c, ctx, spec, plan, fn, doc))
    fams = []
    for i in range(120 * scale):
        wrng = random.Random(rng.getrandbits(48))
        fam = gen_sentinel_family(wrng)
        files = {'s%d_%s.wb' % (i, k): wg.dumps(wg.rnd(d)) for k, d in fam['docs'].items()}
        c = core.Case('s%d' % i, files=files)
        idx = {}
        for wid, k in enumerate('ABCD'):
            world(c, wid + 1, core.workfile(PID, 's%d_%s.wb' % (i, k)))
        for qi, q in enumerate(fam['queries']):
            for wid, k in enumerate('ABCD'):
                idx[(k, qi)] = q3xyz(c, wid + 1, q[0], q[1], q[2], q[3], [(1, 0, 0), (4, 0, 0)])
        fams.append((c, fam, idx, i))
    core.run_cases('asan', [j[1] for j in jobs] + [f[0] for f in fams], PID)

    reached = set()
    for (cls, c, ctx, spec, plan, fn, doc) in jobs:
        if c.crash:
            V.crash(c, fn)
        if not ok(c.results[0]):
            V.violation('world-rejected:%s' % cls, {'world': fn, 'res': c.results[0], 'doc': doc})
            continue
        for (p, idx) in plan:
            res = c.results[idx]
            if res[0] == 'missing':
                continue
            if cls == 'area':
                exp = expected_area(spec, ctx, p[0], p[1], p[2])
                label = '%s:%s:%s' % (spec['ftype'], spec['kind'], spec.get('name', 'uniform'))
            elif cls == 'plume':
                try:
                    exp = expected_plume(spec, p[0], p[1], p[2])
                except AmbiguousAngle:
                    exp = None
                label = 'plume:temperature:%s' % spec['name']
            else:
                exp = expected_line(spec, p)
                label = '%s:%s:%s' % ('fault' if spec['fault'] else 'subducting plate', spec['kind'], spec.get('name', 'uniform'))
            if exp is None:
                continue
            V.count()
            label += ':spherical' if ctx.sph else ':cartesian'
            detail = {'world': fn, 'point': p, 'model': doc['features'][0].get(spec.get('kind', 'temperature') + ' models'), 'feature_depths': (doc['features'][0].get('min depth'), doc['features'][0].get('max depth')),
                      'globals': spec['g']}
            if not ok(res):
                V.violation('query-threw:' + label, dict(detail, res=res))
                continue
            got = core.split_blocks(vals(res), PROPS)
            tol = 1e-12
            if exp.get('_dist'):
                # the value encodes the distance to the plane (1e-3 m of ~1e5 m); close to the vertical through the trench the foot
                # error of the curve solver (<= ~0.1 m along the trench) adds foot_error^2 / (2|h|) to the distance
                # (observed: 2.3e-6 m at |h| = 737 m, 1.4e-4 m at 1.1 m)
                tol = 1e-9 + (5e-6 / max(abs(p['h']), 100.0) if isinstance(p, dict) and 'h' in p else 0.0)
            if exp.get('_loose'):
                tol = 1e-10
            tol += exp.get('_extra_tol', 0.0)
            if exp.get('_surface'):
                tol = max(tol, 1e-9)
            if '_converged' in exp:
                # the documentation names the model, not the number of terms: judge the formula where the tail beyond the
                # implementation's 100 terms is negligible, and the identically truncated sum elsewhere
                T100 = exp[(1, 0, 0)][0]
                Tconv = exp['_converged']
                tol = 1e-9 + exp.get('_extra_tol', 0.0)
                if abs(T100 - Tconv) <= 1e-9 * abs(Tconv):
                    exp[(1, 0, 0)] = [Tconv]
            compare(V, 'formula:' + label.rsplit(':', 1)[0], label, p, exp, got, PROPS, tol, detail)
            reached.add(label)
            if spec.get('sentinel') or spec.get('narrow'):
                V.nontrivial((fn, str(p)))
            if '_smooth' in exp:
                pass
        V.sample({'world': fn, 'class': cls, 'model': doc['features'][0].get(spec.get('kind', 'temperature') + ' models'), 'point': plan[0][0] if plan else None}, limit=6)

    for (c, fam, idx, i) in fams:
        if c.crash:
            V.crash(c, 'sentinel family %d' % i)
            continue
        if any(not ok(c.results[k]) for k in range(4)):
            if all(c.results[k][0] == 'ex' for k in range(4)):
                continue
            V.violation('sentinel-family:construction-differs', {'family': fam['mode'], 'param': fam['param'], 'results': c.results[:4]})
            continue
        n_inside = 0
        differs_CD = False
        for qi, q in enumerate(fam['queries']):
            r = {k: c.results[idx[(k, qi)]] for k in 'ABCD'}
            if any(not ok(x) for x in r.values()):
                continue
            v = {k: vals(x) for k, x in r.items()}
            if any(v[k][1] < 0 for k in 'ABCD'):
                continue
            n_inside += 1
            V.count()
            label = '%s:%s' % (fam['mode'], fam['param'])
            detail = {'family': fam['mode'], 'param': fam['param'], 'X': fam['X'], 'G': fam['G'], 'query': q, 'T': {k: v[k][0] for k in 'ABCD'},
                      'model': fam['docs']['C']['features'][0]['temperature models']}
            if not rel_close(v['A'][0], v['B'][0], 1e-12):
                V.violation('sentinel-is-not-the-global-value:' + label, detail)
            if fam['mode'] in ('area', 'slab-adiabatic', 'fault-adiabatic'):
                # the adiabatic model replaces: with the local value written out the global one must not matter
                if not rel_close(v['C'][0], v['A'][0], 1e-12):
                    V.violation('local-value-not-used:' + label, detail)
            if not rel_close(v['C'][0], v['D'][0], 1e-9):
                differs_CD = True
            reached.add('sentinel:' + label)
            V.nontrivial(('fam', i, qi))
        if n_inside >= 4 and not differs_CD:
            # local X != global G: the local value must have an effect somewhere
            V.violation('local-value-has-no-effect:%s:%s' % (fam['mode'], fam['param']), {'family': fam['mode'], 'param': fam['param'], 'X': fam['X'], 'G': fam['G'],
                                                                                           'model': fam['docs']['C']['features'][0]['temperature models'], 'points_inside': n_inside})
    V.coverage['model_feature_pairs_reached'] = sorted(reached)
    return V.finish(floor_nontrivial=1500 if tier == 'quick' else 50000, floor_evaluations=10000)
