"""C12, thorough tier extras: libFuzzer (clang, ASan+UBSan) on the raw bytes of the parameter file, and a valgrind memcheck replay
of constructed / rejected documents on the uninstrumented -O2 build. Both only add violations that replay: every artifact is run again
as an ordinary wbmon case, so that its key goes through the same known-findings matching as everything else."""
import glob
import json
import os
import re
import shutil
import subprocess

from . import core, corpus, worldgen as wg

PID = 'C12'


def _dictionary(schema):
    words = set()

    def walk(o):
        if isinstance(o, dict):
            for k, v in o.items():
                words.add(k)
                walk(v)
        elif isinstance(o, list):
            for v in o:
                walk(v)
        elif isinstance(o, str) and len(o) < 40:
            words.add(o)
    walk(schema)
    skip = {'type', 'properties', 'items', 'required', 'additionalProperties', 'oneOf', 'description', 'default value', 'minItems', 'maxItems', 'uniqueItems', 'enum', 'documentation', 'default'}
    out = []
    for w in sorted(words):
        if w in skip or not w or any(ord(ch) < 32 or ord(ch) > 126 for ch in w):
            continue
        out.append('"\\"%s\\""' % w.replace('\\', '\\\\').replace('"', '\\"'))
    out += ['"1e300"', '"-1e300"', '"1e-300"', '"NaN"', '"Infinity"', '"-Infinity"', '"[]"', '"{}"', '"[[]]"', '"null"', '"true"', '"false"', '"0"', '"-1"', '"1e19"', '"18446744073709551616"', '"4294967296"']
    return '\n'.join(out) + '\n'


def looks_huge(text):
    """coordinates >= 1e150 or non-finite literals somewhere in the text (for the delaunator known finding)"""
    if re.search(r'NaN|Infinity|nan|inf', text):
        return True
    for m in re.finditer(r'[0-9.]+[eE]\+?([0-9]+)', text):
        try:
            if int(m.group(1)) >= 150:
                return True
        except ValueError:
            pass
    return re.search(r'[0-9]{150,}', text) is not None


def fuzz(V, seed, schema, seconds, workers, battery):
    core.build('fuzz')
    wd = os.path.join(core.WORK, PID + '_fuzz')
    shutil.rmtree(wd, ignore_errors=True)
    os.makedirs(os.path.join(wd, 'corpus'))
    os.makedirs(os.path.join(wd, 'art'))
    os.makedirs(os.path.join(wd, 'tmp'))
    n = 0
    import random
    rng = random.Random(seed * 77 + 1)
    small = [p for p in corpus.world_files() if os.path.getsize(p) < 6000]
    rng.shuffle(small)
    # one file per plugin cover + a few more: a big seed corpus only costs start-up time in every forked job
    descs = [d for d in (corpus.describe(p) for p in small) if d]
    for d in (corpus.covering_set(descs) + descs[:20]):
        shutil.copy(d['path'], os.path.join(wd, 'corpus', 'c%03d.wb' % n))
        n += 1
    for i in range(40):
        w = wg.gen_world(random.Random(rng.getrandbits(48)), {'nfeatures': (1, 2)})
        with open(os.path.join(wd, 'corpus', 'g%03d.wb' % i), 'w') as f:
            f.write(json.dumps(w['json']))
    with open(os.path.join(wd, 'dict.txt'), 'w') as f:
        f.write(_dictionary(schema))
    env = core.san_env('fuzz')
    env['ASAN_OPTIONS'] += ':quarantine_size_mb=8'
    env['FUZZ_TMP'] = os.path.join(wd, 'tmp')
    env['FUZZ_STATS'] = os.path.join(wd, 'stats')
    cmd = [core.exe('fuzz', 'fuzz_world'), 'corpus', '-dict=dict.txt', '-artifact_prefix=art/', '-fork=%d' % workers, '-ignore_crashes=1', '-ignore_timeouts=1', '-ignore_ooms=1',
           '-timeout=30', '-rss_limit_mb=4096', '-max_len=16384', '-max_total_time=%d' % seconds, '-seed=%d' % (seed + 1), '-print_final_stats=1']
    with open(os.path.join(wd, 'fuzz.log'), 'w') as log:
        try:
            subprocess.run(cmd, cwd=wd, env=env, stdout=log, stderr=subprocess.STDOUT, timeout=seconds * 2 + 600)
        except subprocess.TimeoutExpired:
            V.inconclusive.append('libFuzzer did not stop within twice its time budget')
    text = open(os.path.join(wd, 'fuzz.log'), errors='replace').read()
    execs = [int(x) for x in re.findall(r'^#(\d+):? ', text, re.M)] or [0]
    cov = [int(x) for x in re.findall(r'cov: (\d+)', text)] or [0]
    corp = [int(x) for x in re.findall(r'corp: (\d+)', text)] or [0]
    arts = sorted(glob.glob(os.path.join(wd, 'art', '*')))
    V.coverage['libfuzzer'] = {'seconds': seconds, 'workers': workers, 'executions': max(execs), 'edge_coverage': max(cov), 'corpus_units': max(corp), 'artifacts': len(arts),
                               'artifact_kinds': {k: sum(1 for a in arts if os.path.basename(a).startswith(k)) for k in ('crash', 'timeout', 'oom', 'leak', 'slow')}}
    if max(execs) < 5000:
        V.inconclusive.append('libFuzzer executed only %d inputs' % max(execs))
    V.count(max(execs))
    # ---- triage: every artifact again as an ordinary case of the asan monitor
    keep = [a for a in arts if not os.path.basename(a).startswith('slow')][:400]
    cases = []
    for k, a in enumerate(keep):
        data = open(a, 'rb').read()
        fn = 'art%d.wb' % k
        c = core.Case('art%d' % k, files={fn: data})
        path = core.workfile(PID + '_fuzzreplay', fn)
        c.add('world', 1, 1, 0, 0, '-', path)
        battery(c, 1, None)
        cases.append((c, a, path, data))
    if cases:
        core.run_cases('asan', [c for c, _a, _p, _d in cases], PID + '_fuzzreplay', per_case_timeout=60)
    reproduced = 0
    for (c, a, path, data) in cases:
        text_a = data.decode('utf-8', 'replace')
        if c.crash:
            reproduced += 1
            at = c.crash['at']
            phase = 'construction' if at == 0 else 'query'
            key = 'crash:%s:%s:%s' % (phase, c.crash['kind'], c.crash['frame'])
            if 'Delaunator' in c.crash['frame'] and looks_huge(text_a):
                key += ':coordinates>=1e150-or-non-finite'
            V.violation(key, {'found_by': 'libFuzzer', 'artifact': os.path.basename(a), 'input': text_a[:6000], 'sanitizer_log': c.crash.get('log', '')[:2500]})
        else:
            r0 = c.results[0] if c.results else ('missing', '')
            if r0[0] == 'exx':
                reproduced += 1
                V.violation('construction-ends-with-a-non-standard-exception', {'found_by': 'libFuzzer', 'artifact': os.path.basename(a), 'input': text_a[:6000]})
            elif r0[0] == 'ex' and r0[1] == '<EMPTY>':
                reproduced += 1
                V.violation('exception-without-message:construction', {'found_by': 'libFuzzer', 'artifact': os.path.basename(a), 'input': text_a[:6000]})
    V.coverage['libfuzzer']['artifacts_replayed'] = len(cases)
    V.coverage['libfuzzer']['artifacts_reproduced_by_the_gcc_asan_monitor'] = reproduced
    if len(cases) - reproduced > 0:
        # an artifact that the monitor process does not reproduce is re-run alone in the fuzz binary; if that fails too it is a fork-mode
        # casualty (OOM kill of a sibling, timeout under load) and is counted, not judged
        again = 0
        for (c, a, path, data) in cases:
            if c.crash or (c.results and c.results[0][0] == 'exx'):
                continue
            try:
                pr = subprocess.run([core.exe('fuzz', 'fuzz_world'), a, '-timeout=120', '-rss_limit_mb=4096'], cwd=wd, env=env, stdout=subprocess.PIPE, stderr=subprocess.STDOUT, timeout=300)
            except subprocess.TimeoutExpired:
                V.violation('hang:construction-or-query', {'found_by': 'libFuzzer', 'artifact': os.path.basename(a), 'input': data.decode('utf-8', 'replace')[:6000]})
                again += 1
                continue
            out = pr.stdout.decode('utf-8', 'replace')
            if pr.returncode != 0:
                again += 1
                kind, frame = core.parse_sanitizer_log(out)
                if 'ERROR: libFuzzer: timeout' in out:
                    kind = 'hang'
                if 'uncaught exception' in out or 'terminate called' in out:
                    kind = kind or 'terminate'
                key = 'crash:clang-build-only:%s:%s' % (kind, frame)
                if 'Delaunator' in frame and looks_huge(data.decode('utf-8', 'replace')):
                    key += ':coordinates>=1e150-or-non-finite'
                V.violation(key, {'found_by': 'libFuzzer', 'artifact': os.path.basename(a), 'input': data.decode('utf-8', 'replace')[:6000], 'log': out[-3000:]})
        V.coverage['libfuzzer']['artifacts_reproduced_only_by_the_clang_build'] = again
        V.coverage['libfuzzer']['artifacts_not_reproduced(load casualties of fork mode)'] = len(cases) - reproduced - again


def memcheck(V, files, per_file_timeout=300):
    """valgrind memcheck on the uninstrumented -O2 monitor: construct + a few queries per file; errors = violations"""
    core.build('plain')
    wd = os.path.join(core.WORK, PID + '_memcheck')
    shutil.rmtree(wd, ignore_errors=True)
    os.makedirs(wd)
    import concurrent.futures

    def one(args):
        k, path = args
        cmds = ['case\tm%d' % k, 'world\t1\t1\t0\t0\t-\t%s' % path]
        for (x, y, z, d) in ((0.0, 0.0, 0.0, 0.0), (1e5, 1e5, 9e5, 1e5), (3e5, 4e5, 5e5, 2.5e5)):
            cmds.append('q3\t1\t%s\t%s\t%s\t%s\t1,0,0;2,0,0;3,0,2;4,0,0;5,0,0' % (core.hx(x), core.hx(y), core.hx(z), core.hx(d)))
        log = os.path.join(wd, 'vg%d.log' % k)
        try:
            pr = subprocess.run(['valgrind', '--tool=memcheck', '--error-exitcode=99', '--leak-check=no', '--track-origins=yes', '--num-callers=12', '--log-file=' + log, core.exe('plain', 'wbmon')],
                                input=('\n'.join(cmds) + '\n').encode(), stdout=subprocess.PIPE, stderr=subprocess.PIPE, timeout=per_file_timeout)
            rc = pr.returncode
        except subprocess.TimeoutExpired:
            return k, path, 'timeout', ''
        return k, path, rc, (open(log, errors='replace').read() if os.path.exists(log) else '')
    n_err = 0
    with concurrent.futures.ThreadPoolExecutor(max_workers=core.NCPU) as ex:
        for (k, path, rc, log) in ex.map(one, list(enumerate(files))):
            V.count()
            if rc == 'timeout':
                V.inconclusive.append('memcheck replay of %s timed out' % os.path.basename(path))
                continue
            m = re.search(r'ERROR SUMMARY: (\d+) errors', log)
            nerr = int(m.group(1)) if m else 0
            if nerr > 0 or rc == 99:
                n_err += 1
                kind = re.search(r'==\d+== (Invalid (?:read|write) of size \d+|Conditional jump or move depends on uninitialised value|Use of uninitialised value of size \d+|Invalid free|Mismatched free|Jump to the invalid address|Process terminating with default action of signal \d+)', log)
                frame = 'unknown'
                for fm in re.finditer(r'(?:at|by) 0x[0-9A-F]+: (.+?) \((\S+?):(\d+)\)', log):
                    if fm.group(2).endswith(('.cc', '.h')) and 'wbmon' not in fm.group(2):
                        frame = re.sub(r'\(.*', '', fm.group(1)) + '@' + fm.group(2)
                        break
                text_in = open(path, errors='replace').read()
                key = 'memcheck:%s:%s' % ((kind.group(1) if kind else 'error').replace(' ', '-'), frame)
                if 'elaunator' in log and looks_huge(text_in):
                    key = 'crash:construction:asan:heap-buffer-overflow:memcheck:Delaunator:coordinates>=1e150-or-non-finite'
                V.violation(key, {'found_by': 'valgrind memcheck on the -O2 build', 'file': path, 'input': text_in[:4000], 'log': log[:3000]})
    V.coverage['memcheck'] = {'files_replayed': len(files), 'files_with_errors': n_err}
