"""C15 - seeded randomness is reproducible and random grains are valid (DESIGN.md C15)."""
import copy
import math
import random

from . import core, worldgen as wg
from .common import world, ok, vals

PID = 'C15'
NCOMP = 3


def random_feature(rng, ctx):
    """a single feature whose grains / composition models are random models, with the truth of those models"""
    ftype = rng.choice(wg.ALL_TYPES)
    where = None
    if ctx.sph:
        where = (wg.R(rng.uniform(-150, 150)), wg.R(rng.uniform(-40, 40)), wg.R(rng.uniform(4, 10)))
    opts = {'p_temperature': 0.5, 'p_composition': 0.0, 'p_grains': 0.0, 'p_velocity': 0.5, 'sections': False, 'segment_models': False, 'ncoords': rng.choice([2, 3]), 'max_bend': 20.0}
    f, t = wg.gen_feature(rng, ctx, ftype, 0, NCOMP, opts, where)
    f = wg.strip(f)
    kmin, kmax = wg.range_keys(ftype)
    name = 'random uniform distribution deflected' if (ftype == 'plume' or rng.random() < 0.5) else 'random uniform distribution'
    comps = rng.sample(range(NCOMP), rng.randint(1, 2))
    m = {'model': name, 'compositions': comps,
         'grain sizes': [(-1.0 if rng.random() < 0.5 else wg.num(rng, 0.01, 0.9)) for _ in comps],
         'normalize grain sizes': [rng.random() < 0.5 for _ in comps]}
    if name.endswith('deflected'):
        m['deflections'] = [wg.num(rng, 0.0, 1.0) for _ in comps]
        r = rng.random()
        if r < 0.4:
            m['basis rotation matrices'] = [wg.rnd(wg.rot_matrix(rng)) for _ in comps]
        elif r < 0.7:
            m['basis Euler angles z-x-z'] = [[wg.R(rng.uniform(0, 360)), wg.R(rng.uniform(0, 180)), wg.R(rng.uniform(0, 360))] for _ in comps]
    if ftype in ('subducting plate', 'fault'):
        # cover the whole body (also the region a negative top truncation admits)
        m[kmin] = -1.0e7 if ftype == 'subducting plate' else 0.0
        m[kmax] = 1.0e7
    f['grains models'] = [m]
    truth = {'ftype': ftype, 'grains': {c: {'size': m['grain sizes'][i], 'normalize': m['normalize grain sizes'][i]} for i, c in enumerate(comps)}, 'comp': None}
    if ftype == 'continental plate' and rng.random() < 0.8:
        cc = rng.sample(range(NCOMP), rng.randint(1, 3))
        lo = [wg.num(rng, -5, 5) for _ in cc]
        hi = [wg.R(l + wg.num(rng, 0.1, 3)) for l in lo]
        # list shapes: one bound per composition, or a single bound shared by all compositions (either side)
        shape = rng.choice(['per-composition', 'per-composition', 'shared-min', 'shared-max', 'shared-both']) if len(cc) > 1 else 'per-composition'
        lo_w, hi_w = lo, hi
        if shape in ('shared-min', 'shared-both'):
            lo = [min(lo)] * len(cc)
            lo_w = lo[:1]
            hi = [wg.R(lo[0] + wg.num(rng, 0.1, 3) * (3.0 ** -i)) for i in range(len(cc))]      # clearly different maxima
            hi_w = hi
        if shape in ('shared-max', 'shared-both'):
            hi = [max(hi)] * len(cc)
            hi_w = hi[:1]
            if shape == 'shared-max':
                lo = [wg.R(hi[0] - wg.num(rng, 0.1, 3) * (3.0 ** -i)) for i in range(len(cc))]
                lo_w = lo
        f['composition models'] = [{'model': 'random', 'compositions': cc, 'min value': lo_w, 'max value': hi_w}]
        truth['comp'] = {c: (lo[i], hi[i]) for i, c in enumerate(cc)}
        truth['comp_shape'] = shape
    return f, t, truth


def mat_checks(block, k):
    """-> (sizes, worst orthogonality defect, worst |det-1|)"""
    sizes = block[:k]
    worst_o, worst_d = 0.0, 0.0
    for g in range(k):
        m = [block[k + 9 * g + 3 * r:k + 9 * g + 3 * r + 3] for r in range(3)]
        for a in range(3):
            for b in range(3):
                dot = sum(m[a][c] * m[b][c] for c in range(3))
                worst_o = max(worst_o, abs(dot - (1.0 if a == b else 0.0)))
        det = (m[0][0] * (m[1][1] * m[2][2] - m[1][2] * m[2][1]) - m[0][1] * (m[1][0] * m[2][2] - m[1][2] * m[2][0]) + m[0][2] * (m[1][0] * m[2][1] - m[1][1] * m[2][0]))
        worst_d = max(worst_d, abs(det - 1.0))
    return sizes, worst_o, worst_d


def main(tier, seed, replay):
    core.build('asan')
    rng = random.Random(seed * 31 + 15)
    V = core.Verdict(PID, tier, seed)
    V.coverage['rule'] = ('single-feature worlds of every feature type with a random grains model (and random composition for continental plates); per world five instances in one process: A and its twin B (same constructor '
                          'seed), C (another seed), D (seed given by the random number seed entry, any constructor seed), E (the file again with the first seed, queried after the others); the same history of 40-80 calls '
                          '(grains with 1-200 grains, batched lists with compositions and velocity blocks, 3D and - along a cross section through the feature - 2D entry point) interleaved call by call; twins and D bit-identical, C differs in at least one drawn value; a third of the worlds replayed alone in a fresh process (bit-identical to the busy process); every orientation a proper rotation, '
                          'normalised sizes sum to one, fixed sizes as given, random sizes in [0,1), random compositions within their bounds (bounds given per composition or as one shared value on either side); non-trivial = histories with >= 100 draws')
    nworlds = 120 if tier == 'quick' else 3600
    jobs = []
    for i in range(nworlds):
        wrng = random.Random(rng.getrandbits(48))
        sph = wrng.random() < 0.3
        ctx = wg.gen_ctx(wrng, sph, exotic=False)
        doc = {}
        wg.gen_globals(wrng, ctx, doc, exotic=False, force_surface=False)
        f, t, truth = random_feature(wrng, ctx)
        doc['features'] = [f]
        tt = dict(t)
        pts = [wg.point_in_feature(wrng, ctx, tt) for _ in range(12)]
        cross = None
        if wrng.random() < 0.5:
            # a cross section through the feature: the 2D entry point draws from the same engine and post-processes velocity blocks
            a, b = pts[0], pts[1]
            if abs(a[0] - b[0]) + abs(a[1] - b[1]) > 1e-6:
                cross = [[wg.R(a[0]), wg.R(a[1])], [wg.R(b[0]), wg.R(b[1])]]
                doc['cross section'] = cross
        s1 = wrng.choice([0, 1, 7, 12345, 2 ** 31 - 1, wrng.randrange(2 ** 31)])
        s2 = s1
        while s2 % (2 ** 32) == s1 % (2 ** 32):
            s2 = wrng.randrange(2 ** 31)
        docD = copy.deepcopy(doc)
        docD['random number seed'] = s1
        fn, fnD = 'w%d.wb' % i, 'w%d_seeded.wb' % i
        c = core.Case('w%d' % i, files={fn: wg.dumps(doc), fnD: wg.dumps(docD)})
        p, pD = core.workfile(PID, fn), core.workfile(PID, fnD)
        world(c, 1, p, seed=s1)
        world(c, 2, p, seed=s1)
        world(c, 3, p, seed=s2)
        world(c, 4, pD, seed=wrng.randrange(2 ** 31))
        hist = []
        ncalls = wrng.randint(40, 80)
        for _ in range(ncalls):
            sx, sy, d = wrng.choice(pts)
            if ctx.sph:
                sx = ((sx + 180.0) % 360.0) - 180.0
            x, y, z = ctx.point(sx, sy, d)
            r = wrng.random()
            comp = wrng.randrange(NCOMP)
            k = wrng.choice([1, 2, 3, 5, 20, 200]) if r < 0.9 else 7
            props = [(3, comp, k), (4, 0, 0)]
            if r < 0.5:
                props.append((2, wrng.randrange(NCOMP), 0))
            if r < 0.2:
                props.insert(0, (3, wrng.randrange(NCOMP), wrng.choice([1, 4])))
            if wrng.random() < 0.35:
                props.insert(wrng.randrange(len(props) + 1), (5, 0, 0))      # a velocity block before / between / behind the grains
            if cross and wrng.random() < 0.45:
                (x2, z2), _s = wg.section_query(ctx, cross, wrng.uniform(-0.1, 1.1), d)
                idx = [c.add('q2', wid, core.hx(x2), core.hx(z2), core.hx(d), core.props_str(props)) for wid in (1, 2, 3, 4)]
            else:
                idx = [c.add('q3', wid, core.hx(x), core.hx(y), core.hx(z), core.hx(d), core.props_str(props)) for wid in (1, 2, 3, 4)]
            hist.append((props, idx))
        jobs.append((c, truth, hist, fn, doc, (s1, s2)))
    core.run_cases('asan', [j[0] for j in jobs], PID, per_case_timeout=120)
    # a third of the worlds once more, instance A alone in a fresh process with its own sequence of calls: the draws are a function of
    # file, seed and the calls made so far - not of the worlds (with other parameters) that lived in the process before
    iso = []
    for n, (c, truth, hist, fn, doc, seeds) in enumerate(jobs):
        if n % 3 != 0 or c.crash or not c.results or not ok(c.results[0]):
            continue
        ic = core.Case('iso_' + c.cid, [c.cmds[0]] + [c.cmds[idx[0]] for (_p, idx) in hist])
        iso.append((ic, c, hist, fn, seeds))
    core.run_cases('asan', [i[0] for i in iso], PID + '_iso', per_case_timeout=120, isolate=True)
    for (ic, c, hist, fn, seeds) in iso:
        if ic.crash or not ic.results:
            continue
        for k, (props, idx) in enumerate(hist):
            a, b = c.results[idx[0]], ic.results[1 + k]
            if a[0] == 'missing' or b[0] == 'missing':
                break
            V.count()
            if a[0] != b[0] or (ok(a) and not core.same_bits(vals(a), vals(b))):
                V.violation('draws-depend-on-worlds-that-lived-earlier-in-the-process', {'world': fn, 'seeds': seeds, 'call': c.cmds[idx[0]], 'in_a_busy_process': a[1][:300], 'alone_in_a_fresh_process': b[1][:300]})
                break
    for (c, truth, hist, fn, doc, seeds) in jobs:
        if c.crash:
            V.crash(c, fn)
            continue
        if any(not ok(c.results[k]) for k in range(4)):
            if ok(c.results[0]) != ok(c.results[3]) or ok(c.results[0]) != ok(c.results[1]):
                V.violation('construction-outcome-differs-between-instances', {'world': fn, 'results': c.results[:4]})
            continue
        draws = 0
        differs_c = False
        line = truth['ftype'] in ('subducting plate', 'fault')
        tol_rot = 1e-9 if line else 1e-12
        if 'basis rotation matrices' in doc['features'][0]['grains models'][0]:
            tol_rot = max(tol_rot, 2e-11)     # the basis matrices are written with 12 significant digits: orthonormal to ~1e-12 only
        any_random = False
        for (props, idx) in hist:
            rs = [c.results[i] for i in idx]
            if any(r[0] == 'missing' for r in rs):
                break
            V.count()
            detail = {'world': fn, 'seeds': seeds, 'props': props, 'feature': doc['features'][0]['model'], 'grains_model': doc['features'][0]['grains models'], 'A': rs[0][1][:200]}
            a, b, cc, dd = rs
            if a[0] != b[0] or (ok(a) and not core.same_bits(vals(a), vals(b))):
                V.violation('twin-worlds-disagree', dict(detail, B=b[1][:200]))
            if a[0] != dd[0] or (ok(a) and not core.same_bits(vals(a), vals(dd))):
                V.violation('seed-entry-differs-from-constructor-seed', dict(detail, D=dd[1][:200]))
            if not ok(a):
                continue
            va = vals(a)
            if ok(cc) and not core.same_bits(va, vals(cc)):
                differs_c = True
            blocks = core.split_blocks(va, props)
            tagb = [blk for p, blk in zip(props, blocks) if p[0] == 4][0]
            inside = tagb[0] >= 0
            for p, blk in zip(props, blocks):
                if p[0] == 3 and inside and p[1] in truth['grains'] and p[2] > 0:
                    k = p[2]
                    g = truth['grains'][p[1]]
                    sizes, wo, wd = mat_checks(blk, k)
                    draws += 3 * k + (k if g['size'] < 0 else 0)
                    any_random = True
                    if not (wo <= tol_rot and wd <= tol_rot):
                        V.violation('random-orientation-is-not-a-proper-rotation:%s' % truth['ftype'], dict(detail, orthogonality_defect=wo, determinant_defect=wd))
                    if g['normalize']:
                        if abs(sum(sizes) - 1.0) > 1e-12 * max(1.0, k / 10.0) + (1e-9 if line else 0.0):
                            V.violation('normalised-grain-sizes-do-not-sum-to-one:%s' % truth['ftype'], dict(detail, total=sum(sizes)))
                    elif g['size'] >= 0:
                        if any(abs(s - g['size']) > (1e-12 if line else 0.0) for s in sizes):
                            V.violation('fixed-grain-size-not-returned-as-given:%s' % truth['ftype'], dict(detail, expected=g['size'], got=sizes[:5]))
                    else:
                        if any(not (0.0 <= s < 1.0) for s in sizes):
                            V.violation('random-grain-size-outside-[0,1):%s' % truth['ftype'], dict(detail, got=[s for s in sizes if not (0.0 <= s < 1.0)][:5]))
                if p[0] == 2 and inside and truth['comp'] and p[1] in truth['comp']:
                    lo, hi = truth['comp'][p[1]]
                    draws += 1
                    any_random = True
                    if not (lo <= blk[0] < hi or (blk[0] == hi == lo)):
                        V.violation('random-composition-outside-its-bounds:%s' % truth.get('comp_shape'), dict(detail, composition=p[1], value=blk[0], bounds=(lo, hi), all_bounds=truth['comp']))
        if any_random and not differs_c:
            V.violation('different-seeds-give-the-same-draws', {'world': fn, 'seeds': seeds, 'draws': draws})
        if draws >= 100:
            V.nontrivial(fn)
        V.sample({'world': fn, 'seeds': seeds, 'feature': doc['features'][0]['model'], 'grains_model': doc['features'][0]['grains models'][0]['model'], 'draws': draws}, limit=4)
    return V.finish(floor_nontrivial=60 if tier == 'quick' else 1800, floor_evaluations=3000)
