"""The repository's own world files (tests, cookbooks, documentation)."""
import os
import re
from . import core


def world_files():
    out = []
    for base in ('tests/gwb-dat', 'tests/gwb-grid', 'cookbooks', 'doc/sphinx/_static/gwb_input_files', 'tests/data', 'tests/c', 'tests/cpp', 'examples'):
        d = os.path.join(core.REPO, base)
        for root, dirs, files in os.walk(d):
            for fn in sorted(files):
                if fn.endswith('.wb'):
                    out.append(os.path.join(root, fn))
    return sorted(out)


def text(path):
    with open(path, errors='replace') as f:
        return f.read()


def is_random(path):
    return 'random' in text(path)


def has_cross_section(path):
    return '"cross section"' in text(path)


def is_spherical(path):
    return re.search(r'"model"\s*:\s*"spherical"', text(path)) is not None


def radius(path):
    m = re.search(r'"radius"\s*:\s*([0-9.eE+-]+)', text(path))
    return float(m.group(1)) if m else 6371000.0


def strip_comments(s):
    out = []
    i = 0
    n = len(s)
    in_str = False
    while i < n:
        c = s[i]
        if in_str:
            out.append(c)
            if c == '\\' and i + 1 < n:
                out.append(s[i + 1])
                i += 2
                continue
            if c == '"':
                in_str = False
            i += 1
            continue
        if c == '"':
            in_str = True
            out.append(c)
            i += 1
        elif c == '/' and i + 1 < n and s[i + 1] == '/':
            while i < n and s[i] != '\n':
                i += 1
        elif c == '/' and i + 1 < n and s[i + 1] == '*':
            j = s.find('*/', i + 2)
            i = n if j < 0 else j + 2
        else:
            out.append(c)
            i += 1
    return ''.join(out)


def load(path):
    import json
    t = strip_comments(text(path))
    # trailing commas are not accepted by rapidjson either, so no further leniency
    return json.loads(t)


def _pairs(obj, out):
    if isinstance(obj, list):
        if len(obj) == 2 and all(isinstance(v, (int, float)) and not isinstance(v, bool) for v in obj):
            out.append((float(obj[0]), float(obj[1])))
        else:
            for v in obj:
                _pairs(v, out)
    elif isinstance(obj, dict):
        for k, v in obj.items():
            if k in ('coordinates', 'ridge coordinates', 'dip point', 'cross section'):
                _pairs(v, out)
            elif isinstance(v, (dict, list)):
                _pairs(v, out)


def describe(path):
    """-> dict(doc, spherical, radius, bbox (file units), cross) or None if the file is not loadable here"""
    try:
        doc = load(path)
    except Exception:
        return None
    if not isinstance(doc, dict) or 'features' not in doc:
        return None
    cs = doc.get('coordinate system') or {}
    sph = cs.get('model') == 'spherical'
    R = float(cs.get('radius', 6371000.0))
    pairs = []
    for f in doc.get('features', []):
        if isinstance(f, dict) and 'coordinates' in f:
            _pairs(f['coordinates'], pairs)
    if not pairs:
        pairs = [(0.0, 0.0), (1.0e6, 1.0e6)] if not sph else [(0.0, 0.0), (10.0, 10.0)]
    xs = [p[0] for p in pairs]
    ys = [p[1] for p in pairs]
    return {'doc': doc, 'spherical': sph, 'radius': R, 'bbox': (min(xs), min(ys), max(xs), max(ys)), 'cross': doc.get('cross section'),
            'ncomp': 6, 'path': path}


def ctx_for(desc):
    from . import worldgen
    if desc['spherical']:
        dm = (desc['doc'].get('coordinate system') or {}).get('depth method', 'starting point')
        return worldgen.Ctx(True, desc['radius'], None, dm)
    return worldgen.Ctx(False, 6371000.0, 1.0e6)


def sample_points(rng, desc, n):
    x0, y0, x1, y1 = desc['bbox']
    w = max(x1 - x0, y1 - y0, 1e-3)
    pts = []
    for _ in range(n):
        sx = rng.uniform(x0 - 0.3 * w, x1 + 0.3 * w)
        sy = rng.uniform(y0 - 0.3 * w, y1 + 0.3 * w)
        if desc['spherical']:
            sy = max(-89.0, min(89.0, sy))
            sx = ((sx + 180.0) % 360.0) - 180.0
        d = rng.choice([0.0, rng.uniform(0, 1.0e5), rng.uniform(0, 3.0e5), rng.uniform(0, 8.0e5)])
        pts.append((sx, sy, d))
    return pts
