"""The repository's own world files (tests, cookbooks, documentation)."""
import os
import re
from . import core


def world_files():
    out = []
    for base in ('tests/gwb-dat', 'tests/gwb-grid', 'cookbooks', 'doc/sphinx/_static/gwb_input_files', 'tests/data', 'tests/c', 'tests/cpp', 'examples'):
        d = os.path.join(core.REPO, base)
        for root, dirs, files in os.walk(d):
            for fn in sorted(files):
                if fn.endswith('.wb'):
                    out.append(os.path.join(root, fn))
    return sorted(out)


def text(path):
    with open(path, errors='replace') as f:
        return f.read()


def is_random(path):
    return 'random' in text(path)


def has_cross_section(path):
    return '"cross section"' in text(path)


def is_spherical(path):
    return re.search(r'"model"\s*:\s*"spherical"', text(path)) is not None


def radius(path):
    m = re.search(r'"radius"\s*:\s*([0-9.eE+-]+)', text(path))
    return float(m.group(1)) if m else 6371000.0


def strip_comments(s):
    out = []
    i = 0
    n = len(s)
    in_str = False
    while i < n:
        c = s[i]
        if in_str:
            out.append(c)
            if c == '\\' and i + 1 < n:
                out.append(s[i + 1])
                i += 2
                continue
            if c == '"':
                in_str = False
            i += 1
            continue
        if c == '"':
            in_str = True
            out.append(c)
            i += 1
        elif c == '/' and i + 1 < n and s[i + 1] == '/':
            while i < n and s[i] != '\n':
                i += 1
        elif c == '/' and i + 1 < n and s[i + 1] == '*':
            j = s.find('*/', i + 2)
            i = n if j < 0 else j + 2
        else:
            out.append(c)
            i += 1
    return ''.join(out)


def load(path):
    import json
    t = strip_comments(text(path))
    # trailing commas are not accepted by rapidjson either, so no further leniency
    return json.loads(t)


def _pairs(obj, out):
    if isinstance(obj, list):
        if len(obj) == 2 and all(isinstance(v, (int, float)) and not isinstance(v, bool) for v in obj):
            out.append((float(obj[0]), float(obj[1])))
        else:
            for v in obj:
                _pairs(v, out)
    elif isinstance(obj, dict):
        for k, v in obj.items():
            if k in ('coordinates', 'ridge coordinates', 'dip point', 'cross section'):
                _pairs(v, out)
            elif isinstance(v, (dict, list)):
                _pairs(v, out)


def describe(path):
    """-> dict(doc, spherical, radius, bbox (file units), cross) or None if the file is not loadable here"""
    try:
        doc = load(path)
    except Exception:
        return None
    if not isinstance(doc, dict) or 'features' not in doc:
        return None
    cs = doc.get('coordinate system') or {}
    sph = cs.get('model') == 'spherical'
    R = float(cs.get('radius', 6371000.0))
    pairs = []
    for f in doc.get('features', []):
        if isinstance(f, dict) and 'coordinates' in f:
            _pairs(f['coordinates'], pairs)
    if not pairs:
        pairs = [(0.0, 0.0), (1.0e6, 1.0e6)] if not sph else [(0.0, 0.0), (10.0, 10.0)]
    xs = [p[0] for p in pairs]
    ys = [p[1] for p in pairs]
    return {'doc': doc, 'spherical': sph, 'radius': R, 'bbox': (min(xs), min(ys), max(xs), max(ys)), 'cross': doc.get('cross section'),
            'ncomp': 6, 'path': path}


def ctx_for(desc):
    from . import worldgen
    if desc['spherical']:
        dm = (desc['doc'].get('coordinate system') or {}).get('depth method', 'starting point')
        return worldgen.Ctx(True, desc['radius'], None, dm)
    return worldgen.Ctx(False, 6371000.0, 1.0e6)


def sample_points(rng, desc, n):
    x0, y0, x1, y1 = desc['bbox']
    w = max(x1 - x0, y1 - y0, 1e-3)
    pts = []
    for _ in range(n):
        sx = rng.uniform(x0 - 0.3 * w, x1 + 0.3 * w)
        sy = rng.uniform(y0 - 0.3 * w, y1 + 0.3 * w)
        if desc['spherical']:
            sy = max(-89.0, min(89.0, sy))
            sx = ((sx + 180.0) % 360.0) - 180.0
        d = rng.choice([0.0, rng.uniform(0, 1.0e5), rng.uniform(0, 3.0e5), rng.uniform(0, 8.0e5)])
        pts.append((sx, sy, d))
    return pts


MODEL_KINDS = ('temperature models', 'composition models', 'grains models', 'velocity models')


def model_signature(desc):
    """set of (feature type, model kind, model name) used anywhere in the file (feature, section and segment level)"""
    sig = set()

    def walk(o, ftype):
        if isinstance(o, dict):
            for k, v in o.items():
                if k in MODEL_KINDS and isinstance(v, list):
                    for m in v:
                        if isinstance(m, dict) and 'model' in m:
                            sig.add((ftype, k.split(' ')[0], m['model']))
                elif isinstance(v, (dict, list)):
                    walk(v, ftype)
        elif isinstance(o, list):
            for v in o:
                walk(v, ftype)
    for f in desc['doc'].get('features', []):
        if isinstance(f, dict):
            walk(f, f.get('model'))
    return sig


def covering_set(descs):
    """greedy choice of files that together use every (feature type, kind, model) triple used by any of them"""
    sigs = [(d, model_signature(d)) for d in descs]
    todo = set()
    for _d, s in sigs:
        todo |= s
    chosen = []
    while todo:
        d, s = max(sigs, key=lambda ds: len(ds[1] & todo))
        if not (s & todo):
            break
        chosen.append(d)
        todo -= s
    return chosen


def inside_points(flavour, name, descs, rng, n_candidates=400, n_inside=20, n_outside=5):
    """per file: points preferring those that some feature owns (tag >= 0), spread over (tag, compositions present) buckets, found by a single threaded scan of candidates"""
    from .common import ok, vals
    cases = []
    for k, d in enumerate(descs):
        ctx = ctx_for(d)
        c = core.Case('scan%d' % k)
        c.add('world', 1, 1, 0, 0, '-', d['path'])
        pts = sample_points(rng, d, n_candidates)
        idx = []
        for (sx, sy, dep) in pts:
            x, y, z = ctx.point(sx, sy, dep)
            idx.append(c.add('q3', 1, core.hx(x), core.hx(y), core.hx(z), core.hx(dep), core.props_str([(4, 0, 0)] + [(2, k, 0) for k in range(6)])))
        cases.append((c, pts, idx))
    core.run_cases(flavour, [c for c, _p, _i in cases], name, per_case_timeout=120)
    out = []
    for (c, pts, idx) in cases:
        inside, outside = {}, []
        if c.crash is None and c.results and c.results[0][0] == 'ok':
            for p, i in zip(pts, idx):
                r = c.results[i]
                if ok(r) and vals(r)[0] >= 0:
                    # bucket = owning feature and which compositions are present there: thin layers with their own models
                    # (a hydrated crust, a smooth composition rim) get their own bucket and so their own share of the points
                    v = vals(r)
                    inside.setdefault((int(v[0]),) + tuple(abs(x) > 1e-12 for x in v[1:7]), []).append(p)
                else:
                    outside.append(p)
        chosen = []
        tags = sorted(inside)
        while tags and len(chosen) < n_inside:
            for t in list(tags):
                if inside[t]:
                    chosen.append(inside[t].pop())
                else:
                    tags.remove(t)
                if len(chosen) >= n_inside:
                    break
        chosen += outside[:max(n_outside, n_inside + n_outside - len(chosen))]
        out.append(chosen or pts[:n_inside + n_outside])
    return out
