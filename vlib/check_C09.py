"""C09 - the 2D cross-section interface equals the 3D interface along the section (DESIGN.md C09)."""
import math
import random

from . import core, corpus, worldgen as wg
from .check_C01 import random_props
from .common import q3xyz, q2, world, ok, vals, margin_pass, block_delta, TOL

PID = 'C09'
PI = math.pi


def mapped_point(ctx, cross, x2, z2):
    """the 3D point of the statement of C09 -> (x,y,z) cartesian, (sx,sy) surface position in file units, direction cosines"""
    ax, ay = cross[0]
    bx, by = cross[1]
    if not ctx.sph:
        L = math.hypot(bx - ax, by - ay)
        ux, uy = (bx - ax) / L, (by - ay) / L
        sx, sy = ax + x2 * ux, ay + x2 * uy
        return (sx, sy, z2), (sx, sy), (ux, uy)
    d2r = PI / 180.0
    dlon, dlat = (bx - ax) * d2r, (by - ay) * d2r
    L = math.hypot(dlon, dlat)
    ux, uy = dlon / L, dlat / L
    theta = math.atan2(z2, x2)
    r = math.hypot(x2, z2)
    lon = ax * d2r + theta * ux
    lat = ay * d2r + theta * uy
    cl = r * math.sin(0.5 * PI - lat)
    return (cl * math.cos(lon), cl * math.sin(lon), r * math.cos(0.5 * PI - lat)), (lon / d2r, lat / d2r), (ux, uy)


def main(tier, seed, replay):
    core.build('asan')
    rng = random.Random(seed * 60013 + 9)
    V = core.Verdict(PID, tier, seed)
    V.coverage['rule'] = ('properties(2D)(x,z,depth,list) vs properties(3D)(point mapped per the statement) on generated worlds with random cross sections (both systems, any origin/direction) '
                          'and corpus worlds with a cross section; 2D calls on worlds without cross section must throw; non-trivial = comparisons inside a feature on an oblique section '
                          '(both direction cosines > 0.1) or with a velocity block')
    n_gen, n_corpus, n_nocross = (150, 40, 30) if tier == 'quick' else (3000, 60, 300)
    jobs = []
    files = [p for p in corpus.world_files() if not corpus.is_random(p)]
    rng.shuffle(files)
    descs = [d for d in (corpus.describe(p) for p in files) if d]
    wid = 0
    for d in [d for d in descs if d['cross']][:n_corpus]:
        wid += 1
        ctx = corpus.ctx_for(d)
        jobs.append(build(rng, wid, d['path'], {}, ctx, d['cross'], d['ncomp'], 40))
    for i in range(n_gen):
        wid += 1
        wrng = random.Random(rng.getrandbits(48))
        w = wg.gen_world(wrng, {'nfeatures': (1, 5), 'cross_section': True, 'p_velocity': 0.7})
        fn = 'g%d.wb' % wid
        jobs.append(build(wrng, wid, core.workfile(PID, fn), {fn: wg.dumps(w['json'])}, w['truth']['ctx'], w['truth']['cross'], w['truth']['ncomp'], 50))
    nocross = []
    for i in range(n_nocross):
        wid += 1
        wrng = random.Random(rng.getrandbits(48))
        w = wg.gen_world(wrng, {'nfeatures': (0, 3), 'cross_section': False, 'force_surface': wrng.random() < 0.5})
        fn = 'n%d.wb' % wid
        c = core.Case('n%d' % wid, files={fn: wg.dumps(w['json'])})
        world(c, 1, core.workfile(PID, fn))
        idx = [c.add('q2', 1, core.hx(1e5), core.hx(9e5), core.hx(1e5), '1,0,0;4,0,0'), c.add('t2', 1, core.hx(1e5), core.hx(9e5), core.hx(1e5)),
               # at the surface with the temperature alone (the request a forced surface temperature answers without looking at the point)
               c.add('q2', 1, core.hx(1e5), core.hx(9e5), core.hx(0.0), '1,0,0'), c.add('t2', 1, core.hx(1e5), core.hx(9e5), core.hx(0.0)),
               c.add('q2', 1, core.hx(0.0), core.hx(0.0), core.hx(0.0), '1,0,0;1,0,0'),
               c.add('c2', 1, core.hx(1e5), core.hx(9e5), core.hx(1e5), 0), c.add('g2', 1, core.hx(1e5), core.hx(9e5), core.hx(1e5), 0, 2)]
        nocross.append((c, idx, fn))
    core.run_cases('asan', [j[0] for j in jobs] + [n[0] for n in nocross], PID)
    for (c, idx, fn) in nocross:
        if c.crash:
            V.crash(c, fn)
            continue
        if not ok(c.results[0]):
            continue
        for i in idx:
            V.count()
            if c.results[i][0] != 'ex':
                V.violation('2d-call-without-cross-section-not-refused', {'world': fn, 'cmd': c.cmds[i], 'res': c.results[i]})
            else:
                V.nontrivial(('nocross', fn))
    pending = []
    for job in jobs:
        check(V, job, pending)
    # margin rule for the disagreements
    res = margin_pass('asan', PID, [p['item'] for p in pending])
    excused = 0
    for p, (exc, info) in zip(pending, res):
        if exc:
            excused += 1
        else:
            V.violation(p['key'], dict(p['detail'], margin=info))
    V.coverage['margin_excused'] = excused
    V.coverage['compared_points'] = V.coverage['evaluations']
    if excused > 0.005 * max(1, V.coverage['evaluations']):
        V.inconclusive.append('%d of %d comparisons needed the margin rule (> 0.5%%)' % (excused, V.coverage['evaluations']))
    return V.finish(floor_nontrivial=200 if tier == 'quick' else 3000, floor_evaluations=2000)


COMPANIONS = {
    'companion_c.wb': '{"version":"1.1","cross section":[[123456.0,-234567.0],[-345678.0,456789.0]],"features":[]}',
    'companion_s.wb': '{"version":"1.1","coordinate system":{"model":"spherical","depth method":"starting point"},"cross section":[[33.0,-12.0],[-20.0,40.0]],"features":[]}',
}


def build(rng, wid, path, files, ctx, cross, ncomp, nq):
    c = core.Case('w%d' % wid, files=dict(files, **COMPANIONS))
    world(c, 1, path)
    # a second world with another cross section (same or other coordinate system) is asked through the 2D entry point at the very same
    # (x, z, depth) right before about half of the calls: anything the 2D mapping remembers between calls under too small a key shows
    comp = rng.choice(['companion_c.wb', 'companion_s.wb'])
    world(c, 9, core.workfile(PID, comp))
    plan = []
    for _ in range(nq):
        d = rng.choice([0.0, rng.uniform(0, 1e5), rng.uniform(0, 3e5), rng.uniform(0, 8e5)])
        (x2, z2), _s = wg.section_query(ctx, cross, rng.uniform(-0.3, 1.3), d)
        if rng.random() < 0.1 and not ctx.sph:
            x2 = -abs(x2)          # behind the origin of the section
        props = random_props(rng, ncomp, 6)
        if rng.random() < 0.5:
            props.append((4, 0, 0))
        if rng.random() < 0.5:
            q2(c, 9, x2, z2, d, [(1, 0, 0), (4, 0, 0)])
        a = q2(c, 1, x2, z2, d, props)
        (x, y, z), (sx, sy), u = mapped_point(ctx, cross, x2, z2)
        b = q3xyz(c, 1, x, y, z, d, props)
        plan.append((a, b, props, (sx, sy, d), u))
    return c, plan, {'path': path, 'ctx': ctx, 'cross': cross}


def check(V, job, pending):
    c, plan, meta = job
    ctx = meta['ctx']
    if c.crash:
        V.crash(c, meta['path'])
    if not ok(c.results[0]):
        return
    for (a, b, props, pt, u) in plan:
        ra, rb = c.results[a], c.results[b]
        if ra[0] == 'missing' or rb[0] == 'missing':
            continue
        V.count()
        if ra[0] != rb[0]:
            V.violation('2d-and-3d-outcome-differ', {'world': meta['path'], 'cmd2': c.cmds[a], 'cmd3': c.cmds[b], 'r2': ra, 'r3': rb})
            continue
        if not ok(ra):
            continue
        v2, v3 = vals(ra), vals(rb)
        if len(v2) != len(v3):
            V.violation('2d-and-3d-length-differ', {'world': meta['path'], 'cmd2': c.cmds[a], 'len2': len(v2), 'len3': len(v3)})
            continue
        inside = False
        hasvel = False
        for p, b2, b3 in zip(props, core.split_blocks(v2, props), core.split_blocks(v3, props)):
            if p[0] == 4:
                inside = inside or b3[0] >= 0
            if p[0] == 5:
                hasvel = True
                if ctx.sph:
                    continue
                exp = [u[0] * b3[0] + u[1] * b3[1], b3[2], 0.0]
                delta = block_delta(b2, exp)
                name = 'velocity-projection'
            else:
                delta = block_delta(b2, b3)
                name = {1: 'temperature', 2: 'composition', 3: 'grains', 4: 'tag'}[p[0]]
            if delta > TOL[p[0]]:
                key = '2d-differs-from-3d:%s:%s' % ('spherical' if ctx.sph else 'cartesian', name)
                detail = {'world': meta['path'], 'cmd2': c.cmds[a], 'cmd3': c.cmds[b], 'props': props, 'property': p, 'block2d': b2, 'block3d': b3, 'delta': delta, 'direction': u}
                if p[0] == 5:
                    # a wrong projection is not a discontinuity issue: no margin excuse unless the 3D velocity itself jumps
                    pending.append({'key': key, 'detail': detail, 'item': {'world': meta['path'], 'ctx': ctx, 'pt': pt, 'prop': p, 'delta': delta}})
                else:
                    pending.append({'key': key, 'detail': detail, 'item': {'world': meta['path'], 'ctx': ctx, 'pt': pt, 'prop': p, 'delta': delta}})
        oblique = abs(u[0]) > 0.1 and abs(u[1]) > 0.1
        if inside and (oblique or hasvel):
            V.nontrivial((meta['path'], c.cmds[a]))
            V.sample({'world': meta['path'], 'cmd2': c.cmds[a], 'cmd3': c.cmds[b], 'v2': v2[:8], 'v3': v3[:8]})
