"""C08 - answers are invariant under rigid motions of world plus query (DESIGN.md C08)."""
import copy
import math
import random

from . import core, worldgen as wg, ridgeref
from .common import world, ok, vals, q3, q2, margin_pass, block_delta, TOL

PID = 'C08'
PI = math.pi
NCOMP = 3
PROPS = [(1, 0, 0), (2, 0, 0), (2, 1, 0), (2, 2, 0), (3, 0, 2), (4, 0, 0)]


def R15(x):
    return float('%.15g' % x)


def transform_doc(doc, fpoint, rot_deg, spherical):
    """apply fpoint to every coordinate valued entry; rotate plume azimuths (cartesian)"""
    def pt(p):
        x, y = fpoint(p[0], p[1])
        return [R15(x), R15(y)]

    def walk(o, in_plume=False):
        if isinstance(o, dict):
            out = {}
            plume = o.get('model') == 'plume'
            for k, v in o.items():
                if k in ('coordinates',):
                    out[k] = [pt(p) for p in v]
                elif k == 'dip point':
                    out[k] = pt(v)
                elif k == 'cross section':
                    out[k] = [pt(p) for p in v]
                elif k == 'ridge coordinates':
                    out[k] = [[pt(p) for p in ridge] for ridge in v]
                elif k in ('min depth', 'max depth') and isinstance(v, list):
                    items = []
                    for it in v:
                        if len(it) == 2:
                            items.append([it[0], [pt(p) for p in it[1]]])
                        else:
                            items.append(list(it))
                    out[k] = items
                elif k == 'rotation angles' and plume and not spherical:
                    # azimuth clockwise from north: a counter clockwise rotation of the world by rot_deg lowers it
                    out[k] = [R15((a - rot_deg) % 360.0) for a in v]
                else:
                    out[k] = walk(v)
            return out
        if isinstance(o, list):
            return [walk(v) for v in o]
        return o
    return walk(doc)


def has_ridge(doc):
    def walk(o):
        if isinstance(o, dict):
            return 'ridge coordinates' in o or any(walk(v) for v in o.values())
        if isinstance(o, list):
            return any(walk(v) for v in o)
        return False
    return walk(doc)


def lon_range(doc):
    """min and max longitude appearing in coordinate valued entries"""
    lons = []

    def walk(o):
        if isinstance(o, dict):
            for k, v in o.items():
                if k in ('coordinates', 'cross section'):
                    lons.extend(p[0] for p in v)
                elif k == 'dip point':
                    lons.append(v[0])
                elif k == 'ridge coordinates':
                    lons.extend(p[0] for r in v for p in r)
                elif k in ('min depth', 'max depth') and isinstance(v, list):
                    for it in v:
                        if len(it) == 2:
                            lons.extend(p[0] for p in it[1])
                else:
                    walk(v)
        elif isinstance(o, list):
            for v in o:
                walk(v)
    walk(doc)
    return (min(lons), max(lons)) if lons else (0.0, 0.0)


def alias_mechanism(doc, ctx, p, off):
    """is the known one-alias defect of the ridge kernel at work for surface position p (degrees) of the spherical world doc when
    the world is moved by the longitude offset off? Decided with the independent reference (vlib/ridgeref.py): for a ridge model
    of the world, the foot chosen under the library's one-alias rule for p in W and for p+off in g(W) are different points of the
    ridge. Oceanic plates measure from p itself; a mass conserving slab measures from the trench foot of p, which is bracketed here by
    the part of the trench polyline nearest to p."""
    d2r = PI / 180.0

    def wrap(x):
        return ((x + 180.0) % 360.0) - 180.0

    def differs(ridges, q):
        rad = [[(a * d2r, b * d2r) for (a, b) in r] for r in ridges]
        grad = [[((a + off) * d2r, b * d2r) for (a, b) in r] for r in ridges]
        vel = [[1.0 for _ in r] for r in ridges]
        b0, _ = ridgeref.best(ridgeref.candidates(rad, vel, [[1.0]], (wrap(q[0]) * d2r, q[1] * d2r), True, ctx.R))
        b1, _ = ridgeref.best(ridgeref.candidates(grad, vel, [[1.0]], (wrap(q[0] + off) * d2r, q[1] * d2r), True, ctx.R))
        if b0['ridge'] != b1['ridge']:
            return True
        return abs(b0['distance'] - b1['distance']) > 1e-7 * max(b0['distance'], 1.0) + 1e-3
    for f in doc['features']:
        models = list(f.get('temperature models', []))
        for sec in f.get('sections', []) or []:
            models += sec.get('temperature models', [])
            for sg in sec.get('segments', []) or []:
                models += sg.get('temperature models', [])
        for sg in f.get('segments', []) or []:
            models += sg.get('temperature models', [])
        for m in models:
            if 'ridge coordinates' not in m:
                continue
            if f['model'] == 'subducting plate':
                tr = f['coordinates']
                samples = []
                for a, b in zip(tr[:-1], tr[1:]):
                    for k in range(41):
                        samples.append((a[0] + (b[0] - a[0]) * k / 40.0, a[1] + (b[1] - a[1]) * k / 40.0))

                def dist(q):
                    dl = ((q[0] - p[0] + 180.0) % 360.0) - 180.0
                    return math.hypot(dl * math.cos(p[1] * d2r), q[1] - p[1])
                dmin = min(dist(q) for q in samples)
                near = [q for q in samples if dist(q) <= 1.5 * dmin + 0.5]
                if any(differs(m['ridge coordinates'], q) for q in near):
                    return True
            else:
                if differs(m['ridge coordinates'], p):
                    return True
    return False


SEC_YEAR = 60.0 * 60.0 * 24.0 * 365.25


def ridge_kernel_family(V, rng, tier):
    """the ridge kernel called directly (wbmon `ridge`): random ridge systems (1-3 ridges joined by oblique transforms, 2-4 points,
    per point velocities, one subducting velocity that differs from the spreading velocities or an array) and points around them,
    incl. beyond the ridge ends. Judged (a) against vlib/ridgeref.py, the stated construction incl. the library's one-alias rule,
    (b) for invariance under a common longitude offset / a rigid motion: a difference the one-alias rule explains (the reference
    itself picks another foot) is the known finding, anything else a violation."""
    n = 40 if tier == 'quick' else 1200
    jobs = []
    for i in range(n):
        sph = rng.random() < 0.7
        R = 6371000.0
        doc = {'version': '1.1', 'features': []}
        if sph:
            doc['coordinate system'] = {'model': 'spherical', 'depth method': 'starting point'}
        fn = 'k%d.wb' % i
        c = core.Case('k%d' % i, files={fn: wg.dumps(doc)})
        world(c, 1, core.workfile(PID + '_kernel', fn))
        if sph:
            cx = rng.choice([-1, 1]) * rng.uniform(150, 180) if rng.random() < 0.6 else rng.uniform(-150, 150)
            cy = rng.uniform(-60, 60)
            u = 1.0
        else:
            cx, cy, u = rng.uniform(-1e6, 1e6), rng.uniform(-1e6, 1e6), 1e5
        nr = rng.choice([1, 1, 2, 3])
        ridges = []
        y = cy - u * rng.uniform(4, 12)
        x = cx + u * rng.uniform(-3, 3)
        for k in range(nr):
            pts = []
            for j in range(rng.choice([2, 2, 3, 4])):
                pts.append((wg.R(x), wg.R(y)))
                y += u * rng.uniform(1.5, 6)
                x += u * rng.uniform(-3, 3)
            ridges.append(pts)
            # the transform to the next ridge: oblique
            x += u * rng.uniform(-6, 6)
            y += u * rng.uniform(-1.0, 1.0)
        vel = [[wg.R(rng.uniform(0.01, 0.12)) for _ in r] for r in ridges]
        if rng.random() < 0.7:
            sub = [[wg.R(rng.uniform(0.01, 0.12))]]
        else:
            sub = [list(v) for v in vel]
            if all(len(v) == 1 for v in sub):
                sub = [[sub[0][0]]]
        points = []
        for k in range(40):
            r0 = rng.choice(ridges)
            a = rng.choice(r0)
            points.append((a[0] + u * rng.uniform(-25, 25), a[1] + u * rng.uniform(-12, 12)))
        motions = []
        for m in range(2):
            if sph:
                lons = [p[0] for r in ridges for p in r]
                omin, omax = -360.0 - min(lons), 360.0 - max(lons)
                off = wg.R(round(rng.uniform(omin, omax) * 8) / 8.0)
                if not (omin <= off <= omax):
                    continue
                motions.append(('longitude', off, (lambda x, y, off=off: (x + off, y))))
            else:
                ang = rng.uniform(0, 360)
                ca, sa = math.cos(math.radians(ang)), math.sin(math.radians(ang))
                tx, ty = rng.uniform(-1e7, 1e7), rng.uniform(-1e7, 1e7)
                motions.append(('rigid', ang, (lambda x, y, ca=ca, sa=sa, tx=tx, ty=ty, cx=cx, cy=cy: (cx + tx + ca * (x - cx) - sa * (y - cy), cy + ty + sa * (x - cx) + ca * (y - cy)))))
        d2r = PI / 180.0 if sph else 1.0

        def wrap(x):
            return ((x + 180.0) % 360.0) - 180.0 if sph else x

        def spec(rr):
            return '|'.join(';'.join('%s,%s' % (core.hx(px * d2r), core.hx(py * d2r)) for (px, py) in r) for r in rr)

        def lst(ll):
            return '|'.join(';'.join(core.hx(v) for v in l) for l in ll)
        plan = []
        for (px, py) in points:
            if sph and not (-89.0 < py < 89.0):
                continue
            px = wrap(px)
            i0 = c.add('ridge', 1, core.hx(R if sph else 0.0), core.hx(px * d2r), core.hx(py * d2r), spec(ridges), lst(vel), lst(sub))
            moved = []
            for (kind, par, g) in motions:
                gr = [[(R15(g(a, b)[0]), R15(g(a, b)[1])) for (a, b) in r] for r in ridges]
                gx, gy = g(px, py)
                gx = wrap(gx)
                ig = c.add('ridge', 1, core.hx(R if sph else 0.0), core.hx(gx * d2r), core.hx(gy * d2r), spec(gr), lst(vel), lst(sub))
                moved.append((kind, par, gr, (gx, gy), ig))
            plan.append(((px, py), i0, moved))
        jobs.append((c, sph, R, ridges, vel, sub, plan, d2r))
    core.run_cases('asan', [j[0] for j in jobs], PID + '_kernel')
    nkernel = 0
    for (c, sph, R, ridges, vel, sub, plan, d2r) in jobs:
        if c.crash:
            V.crash(c, 'ridge kernel')
        csn = 'spherical' if sph else 'cartesian'

        def judge(rr, p, res, what):
            """library answer against the stated construction; returns (library values, reference winner)"""
            if not ok(res):
                V.violation('ridge-kernel:throws:%s' % csn, {'ridges': rr, 'point': p, 'res': res})
                return None, None
            lv = vals(res)
            rad = [[(a * d2r, b * d2r) for (a, b) in r] for r in rr]
            cands = ridgeref.candidates(rad, vel, sub, (p[0] * d2r, p[1] * d2r), sph, R)
            b, runner = ridgeref.best(cands)
            scale = max(b['distance'], 1.0)
            theta = b['distance'] / R if sph else 1.0
            tol = 1e-9 * scale + (1e-15 / max(theta, 1e-9) ** 2 * scale if sph else 0.0) + 1e-6
            tie = abs(runner - b['distance']) <= 10 * tol
            if abs(lv[1] - b['distance']) > tol and not tie:
                V.violation('ridge-kernel:distance-differs-from-the-stated-construction:%s' % csn,
                            {'ridges': rr, 'velocities': vel, 'subducting': sub, 'point': p, 'library': lv, 'reference': b, 'what': what})
            elif not tie:
                for k, name in ((0, 'spreading'), (2, 'subducting')):
                    if abs(lv[k] * SEC_YEAR - b[name]) > 1e-9 * max(abs(b[name]), 1e-3):
                        V.violation('ridge-kernel:%s-velocity-is-not-the-interpolated-value-at-the-foot:%s' % (name, csn),
                                    {'ridges': rr, 'velocities': vel, 'subducting': sub, 'point': p, 'library': [lv[0] * SEC_YEAR, lv[1], lv[2] * SEC_YEAR],
                                     'reference': b, 'what': what})
            return lv, (b, tie)
        for (p, i0, moved) in plan:
            r0 = c.results[i0]
            if r0[0] == 'missing':
                continue
            V.count()
            nkernel += 1
            l0, b0 = judge(ridges, p, r0, 'W')
            for (kind, par, gr, gp, ig) in moved:
                rg = c.results[ig]
                if rg[0] == 'missing':
                    continue
                V.count()
                lg, bg = judge(gr, gp, rg, 'g(W)')
                if l0 is None or lg is None:
                    continue
                V.nontrivial(('kernel', c.cid, p, par))
                dd = abs(l0[1] - lg[1])
                scale = max(l0[1], 1.0)
                same = dd <= 1e-7 * scale + 1e-3
                vsame = all(abs(l0[k] - lg[k]) <= 1e-9 * max(abs(l0[k]), 1e-12) + (1e-7 * abs(l0[k]) if not same else 0.0) for k in (0, 2))
                if same and vsame:
                    continue
                if b0[1] or bg[1]:
                    continue    # a tie between two feet in one of the two worlds
                # do the references (stated construction + one-alias rule) of the two worlds pick different feet?
                ref_differs = abs(b0[0]['distance'] - bg[0]['distance']) > 1e-7 * scale + 1e-3 or \
                    any(abs(b0[0][nm] - bg[0][nm]) > 1e-9 for nm in ('spreading', 'subducting'))
                detail = {'ridges': ridges, 'moved_ridges': gr, 'velocities': vel, 'subducting': sub, 'point': p, 'moved_point': gp, 'motion': (kind, par),
                          'W': [l0[0] * SEC_YEAR, l0[1], l0[2] * SEC_YEAR], 'gW': [lg[0] * SEC_YEAR, lg[1], lg[2] * SEC_YEAR]}
                if sph and ref_differs:
                    V.violation('ridge-kernel:longitude:foot-depends-on-which-360-alias-of-the-point-exists', detail)
                else:
                    V.violation('ridge-kernel:%s:answer-changes-under-the-motion' % kind, detail)
    V.coverage['ridge_kernel_calls'] = nkernel


def main(tier, seed, replay):
    core.build('asan')
    rng = random.Random(seed * 86243 + 8)
    V = core.Verdict(PID, tier, seed)
    V.coverage['rule'] = ('generated worlds of all feature and model types (curved trenches, sections, depth surfaces given at points, ridges); W and g(W) with every coordinate valued entry transformed: cartesian '
                          'translation <= 1e7 m and rotation by any angle about the vertical (plume azimuths co-rotated), spherical common longitude offset keeping longitudes within [-360,360] and moving features across '
                          'the date line (incl. +-360); queries p on W and g(p) on g(W); temperature 1e-6 K, compositions/grains 1e-9, tag names equal, after the margin rule; '
                          'non-trivial = points inside >= 1 feature under a rotation that is not a multiple of 90 degrees or an offset that moves a footprint across the date line')
    nworlds = 150 if tier == 'quick' else 4500
    nridge = 60 if tier == 'quick' else 1800
    jobs = []
    for i in range(nworlds + nridge):
        wrng = random.Random(rng.getrandbits(48))
        if i < nworlds:
            w = wg.gen_world(wrng, {'nfeatures': (1, 4), 'force_surface': False, 'cross_section': wrng.random() < 0.3, 'ncomp': NCOMP, 'p_grains': 0.4, 'p_velocity': 0.2, 'max_bend': 40.0})
        else:
            # the ridge family: cooling models that measure the distance to a ridge (oceanic half space / plate model, slab mass
            # conserving), with ridges shorter than the footprint (feet clamped to a ridge end) and oblique, mostly spherical and
            # half of those at the date line, so that a longitude offset changes which +-360 alias of the point finds the foot
            wg.EXTRA['short_ridges'] = 0.7
            try:
                w = wg.gen_world(wrng, {'nfeatures': (1, 2), 'types': ['oceanic plate', 'subducting plate'], 'force_surface': False, 'cross_section': False, 'ncomp': NCOMP,
                                        'spherical': wrng.random() < 0.75, 'dateline': wrng.random() < 0.5, 'p_temperature': 1.0, 'p_grains': 0.0, 'p_velocity': 0.0,
                                        'allow_temperature': ['half space model', 'plate model', 'mass conserving'], 'max_bend': 30.0})
            finally:
                wg.EXTRA['short_ridges'] = 0.0
        doc = w['json']
        ctx = w['truth']['ctx']
        # plume azimuths that differ by exactly 180 degrees between two cross sections are an interpolation tie (both ways
        # round are the shortest way; rounding decides, differently after a rotation): not a symmetry question, avoided
        for f in doc['features']:
            if f['model'] == 'plume':
                ra = f['rotation angles']
                for k in range(1, len(ra)):
                    if abs(abs(ra[k] - ra[k - 1]) % 360.0 - 180.0) < 1e-6:
                        ra[k] = wg.R((ra[k] + 7.0) % 360.0)
        # give some area features a depth surface with points
        for f, t in zip(doc['features'], w['truth']['features']):
            if t['type'] in wg.AREA and wrng.random() < 0.3 and t['d1'] < 1e300:
                x, y = wg.point_in_poly_interior(wrng, t['poly'])
                f['max depth'] = [[t['d1']], [wg.R(t['d1'] * wrng.uniform(0.5, 1.5)), [[wg.R(x), wg.R(y)]]]]
        motions = []
        for m in range(2):
            if not ctx.sph:
                ang = wrng.uniform(0, 360) if wrng.random() < 0.8 else wrng.choice([90.0, 180.0, 270.0, 0.0])
                tx, ty = wrng.uniform(-1e7, 1e7), wrng.uniform(-1e7, 1e7)
                ca, sa = math.cos(math.radians(ang)), math.sin(math.radians(ang))
                c0 = w['truth']['base']

                def g(x, y, ca=ca, sa=sa, tx=tx, ty=ty, cx=c0[0], cy=c0[1]):
                    dx, dy = x - cx, y - cy
                    return cx + tx + ca * dx - sa * dy, cy + ty + sa * dx + ca * dy
                motions.append({'kind': 'rigid', 'angle': ang, 't': (tx, ty), 'g': g, 'nontrivial': ang % 90.0 != 0.0})
            else:
                lo, hi = lon_range(doc)
                omin, omax = -360.0 - lo, 360.0 - hi
                if omax - omin < 1.0:
                    continue
                r = wrng.random()
                if r < 0.25 and omin <= -360.0 + 1e-9 <= omax:
                    off = -360.0
                elif r < 0.25 and omin <= 360.0 <= omax:
                    off = 360.0
                elif r < 0.6:
                    # move the footprint across the date line
                    centre = 0.5 * (lo + hi)
                    target = wrng.choice([-180.0, 180.0]) + wrng.uniform(-3, 3)
                    off = max(omin, min(omax, target - centre))
                else:
                    off = wrng.uniform(omin, omax)
                off = wg.R(round(off * 8) / 8.0)
                if not (omin <= off <= omax):
                    continue
                lo2, hi2 = lo + off, hi + off
                crosses = (lo2 < 180.0 < hi2) or (lo2 < -180.0 < hi2) or (lo < 180.0 < hi) or (lo < -180.0 < hi)
                motions.append({'kind': 'longitude', 'offset': off, 'g': (lambda x, y, off=off: (x + off, y)), 'nontrivial': crosses or abs(off) == 360.0})
        pts = wg.sample_points(wrng, w, 60, p_inside=0.8)
        fn = 'w%d.wb' % i
        files = {fn: wg.dumps(doc)}
        c = core.Case('w%d' % i, files=files)
        world(c, 1, core.workfile(PID, fn))
        ti = [c.add('tags', 1)]
        base_idx = [q3(c, 1, ctx, sx, sy, d, PROPS) for (sx, sy, d) in pts]
        # the 2D entry point: coordinates are relative to the cross section, which moves with the world, so the SAME (x, z, depth)
        # must get the same answer in W and g(W)
        pts2 = []
        pts2_mapped = []
        cross = w['truth'].get('cross')
        if cross:
            for _ in range(20):
                d = wrng.choice([0.0, wrng.uniform(0, 3e5), wrng.uniform(0, 8e5)])
                (x2, z2), spos = wg.section_query(ctx, cross, wrng.uniform(-0.3, 1.3), d)
                pts2.append((x2, z2, d))
                pts2_mapped.append((spos[0], spos[1], d))     # the 3D position of the statement of C09 (margin rule, alias rule)
        base_idx2 = [q2(c, 1, x2, z2, d, PROPS) for (x2, z2, d) in pts2]
        mplans = []
        for k, mo in enumerate(motions):
            gdoc = transform_doc(doc, mo['g'], mo.get('angle', 0.0), ctx.sph)
            gfn = 'w%d_g%d.wb' % (i, k)
            wg.check_exact_decimals(gdoc)
            import json as _json
            c.files[gfn] = _json.dumps(gdoc, indent=1)
            iw = world(c, 2 + k, core.workfile(PID, gfn))
            tj = c.add('tags', 2 + k)
            idx = []
            for (sx, sy, d) in pts:
                gx, gy = mo['g'](sx, sy)
                if ctx.sph:
                    gx = ((gx + 180.0) % 360.0) - 180.0
                idx.append(q3(c, 2 + k, ctx, gx, gy, d, PROPS))
            idx += [q2(c, 2 + k, x2, z2, d, PROPS) for (x2, z2, d) in pts2]
            mplans.append((mo, iw, tj, idx, gfn))
        jobs.append((c, ctx, pts + pts2_mapped, ti[0], base_idx + base_idx2, mplans, fn, doc))
    core.run_cases('asan', [j[0] for j in jobs], PID)
    pending = []
    for (c, ctx, pts, ti, base_idx, mplans, fn, doc) in jobs:
        if c.crash:
            V.crash(c, fn)
        if not ok(c.results[0]):
            continue
        tags = c.results[ti][1].split('|') if c.results[ti][1] else []
        for (mo, iw, tj, idx, gfn) in mplans:
            rw = c.results[iw]
            if rw[0] == 'missing':
                continue
            if not ok(rw):
                V.violation('moved-world-rejected:%s' % mo['kind'], {'world': fn, 'motion': {k: v for k, v in mo.items() if k != 'g'}, 'res': rw})
                continue
            gtags = c.results[tj][1].split('|') if c.results[tj][1] else []
            for p, ia, ib in zip(pts, base_idx, idx):
                ra, rb = c.results[ia], c.results[ib]
                if ra[0] == 'missing' or rb[0] == 'missing':
                    continue
                V.count()
                motion = {k: v for k, v in mo.items() if k != 'g'}
                detail = {'world': fn, 'moved_world': gfn, 'motion': motion, 'point': p, 'W': ra, 'gW': rb}
                if ra[0] != rb[0]:
                    if 'ex' in (ra[0], rb[0]) and ok(ra) != ok(rb):
                        pending.append({'key': 'outcome-differs:%s' % mo['kind'], 'detail': detail, 'item': {'world': core.workfile(PID, fn), 'ctx': ctx, 'pt': p, 'prop': (1, 0, 0), 'delta': float('inf')}})
                    continue
                if not ok(ra):
                    continue
                va, vb = vals(ra), vals(rb)
                inside = False
                for pr, ba, bb in zip(PROPS, core.split_blocks(va, PROPS), core.split_blocks(vb, PROPS)):
                    if pr[0] == 4:
                        na = tags[int(ba[0])] if ba[0] >= 0 else None
                        nb = gtags[int(bb[0])] if bb[0] >= 0 else None
                        inside = inside or ba[0] >= 0
                        if na != nb:
                            pending.append({'key': 'tag-differs:%s' % mo['kind'], 'detail': dict(detail, tags=(na, nb)),
                                            'item': {'world': core.workfile(PID, fn), 'ctx': ctx, 'pt': p, 'prop': (1, 0, 0), 'delta': float('inf')}})
                        continue
                    delta = block_delta(ba, bb)
                    # the trench closest-point solver stops when its Newton update is below 1e-4 (quadratic convergence: a
                    # parameter error of ~1e-8), and with shifted coordinates it takes a different path to that stop: values
                    # interpolated between sections carry a relative noise of ~1e-8 (observed: 3e-5 K on 2391 K, 2e-8 on a
                    # composition). Tolerances sit one order above that floor.
                    scale = max([abs(x) for x in ba] + [0.0])
                    tol = (1e-6 + 1e-7 * scale) if pr[0] == 1 else 1e-7 * max(1.0, scale)
                    if delta > tol:
                        name = {1: 'temperature', 2: 'composition', 3: 'grains'}[pr[0]]
                        key = '%s-differs:%s' % (name, mo['kind'])
                        if pr[0] == 1 and ctx.sph and has_ridge(doc) and alias_mechanism(doc, ctx, p, mo['offset']):
                            # the foot of a point on a ridge is found in the lon/lat plane for the point and for ONE +-360 alias and the
                            # nearer of the two feet (great circle distance) wins: which alias exists depends on the sign of the longitude.
                            # Recognised by its mechanism (the independent reference picks different feet in W and g(W)), not by its size.
                            key = 'temperature-differs:longitude:ridge-foot-depends-on-which-360-alias-of-the-point-exists'
                        pending.append({'key': key, 'detail': dict(detail, property=pr, delta=delta, blocks=(ba, bb)),
                                        'item': {'world': core.workfile(PID, fn), 'ctx': ctx, 'pt': p, 'prop': pr, 'delta': delta}})
                if inside and mo['nontrivial']:
                    V.nontrivial((fn, gfn, p))
        V.sample({'world': fn, 'motions': [{k: v for k, v in m[0].items() if k != 'g'} for m in mplans], 'point': pts[0], 'W': c.results[base_idx[0]][1][:60]}, limit=4)
    ridge_kernel_family(V, random.Random(seed * 7919 + 88), tier)
    res = margin_pass('asan', PID, [p['item'] for p in pending], position_noise_m=0.2)
    excused = 0
    for p, (exc, info) in zip(pending, res):
        if exc:
            excused += 1
        else:
            V.violation(p['key'], dict(p['detail'], margin=info))
    V.coverage['margin_excused'] = excused
    if excused > 0.005 * max(1, V.coverage['evaluations']):
        V.inconclusive.append('%d of %d comparisons needed the margin rule (> 0.5 %%)' % (excused, V.coverage['evaluations']))
    return V.finish(floor_nontrivial=1500 if tier == 'quick' else 45000, floor_evaluations=8000)
