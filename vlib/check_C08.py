"""C08 - answers are invariant under rigid motions of world plus query (DESIGN.md C08)."""
import copy
import math
import random

from . import core, worldgen as wg
from .common import world, ok, vals, q3, margin_pass, block_delta, TOL

PID = 'C08'
PI = math.pi
NCOMP = 3
PROPS = [(1, 0, 0), (2, 0, 0), (2, 1, 0), (2, 2, 0), (3, 0, 2), (4, 0, 0)]


def R15(x):
    return float('%.15g' % x)


def transform_doc(doc, fpoint, rot_deg, spherical):
    """apply fpoint to every coordinate valued entry; rotate plume azimuths (cartesian)"""
    def pt(p):
        x, y = fpoint(p[0], p[1])
        return [R15(x), R15(y)]

    def walk(o, in_plume=False):
        if isinstance(o, dict):
            out = {}
            plume = o.get('model') == 'plume'
            for k, v in o.items():
                if k in ('coordinates',):
                    out[k] = [pt(p) for p in v]
                elif k == 'dip point':
                    out[k] = pt(v)
                elif k == 'cross section':
                    out[k] = [pt(p) for p in v]
                elif k == 'ridge coordinates':
                    out[k] = [[pt(p) for p in ridge] for ridge in v]
                elif k in ('min depth', 'max depth') and isinstance(v, list):
                    items = []
                    for it in v:
                        if len(it) == 2:
                            items.append([it[0], [pt(p) for p in it[1]]])
                        else:
                            items.append(list(it))
                    out[k] = items
                elif k == 'rotation angles' and plume and not spherical:
                    # azimuth clockwise from north: a counter clockwise rotation of the world by rot_deg lowers it
                    out[k] = [R15((a - rot_deg) % 360.0) for a in v]
                else:
                    out[k] = walk(v)
            return out
        if isinstance(o, list):
            return [walk(v) for v in o]
        return o
    return walk(doc)


def has_ridge(doc):
    def walk(o):
        if isinstance(o, dict):
            return 'ridge coordinates' in o or any(walk(v) for v in o.values())
        if isinstance(o, list):
            return any(walk(v) for v in o)
        return False
    return walk(doc)


def lon_range(doc):
    """min and max longitude appearing in coordinate valued entries"""
    lons = []

    def walk(o):
        if isinstance(o, dict):
            for k, v in o.items():
                if k in ('coordinates', 'cross section'):
                    lons.extend(p[0] for p in v)
                elif k == 'dip point':
                    lons.append(v[0])
                elif k == 'ridge coordinates':
                    lons.extend(p[0] for r in v for p in r)
                elif k in ('min depth', 'max depth') and isinstance(v, list):
                    for it in v:
                        if len(it) == 2:
                            lons.extend(p[0] for p in it[1])
                else:
                    walk(v)
        elif isinstance(o, list):
            for v in o:
                walk(v)
    walk(doc)
    return (min(lons), max(lons)) if lons else (0.0, 0.0)


def main(tier, seed, replay):
    core.build('asan')
    rng = random.Random(seed * 86243 + 8)
    V = core.Verdict(PID, tier, seed)
    V.coverage['rule'] = ('generated worlds of all feature and model types (curved trenches, sections, depth surfaces given at points, ridges); W and g(W) with every coordinate valued entry transformed: cartesian '
                          'translation <= 1e7 m and rotation by any angle about the vertical (plume azimuths co-rotated), spherical common longitude offset keeping longitudes within [-360,360] and moving features across '
                          'the date line (incl. +-360); queries p on W and g(p) on g(W); temperature 1e-6 K, compositions/grains 1e-9, tag names equal, after the margin rule; '
                          'non-trivial = points inside >= 1 feature under a rotation that is not a multiple of 90 degrees or an offset that moves a footprint across the date line')
    nworlds = 150 if tier == 'quick' else 4500
    jobs = []
    for i in range(nworlds):
        wrng = random.Random(rng.getrandbits(48))
        w = wg.gen_world(wrng, {'nfeatures': (1, 4), 'force_surface': False, 'cross_section': wrng.random() < 0.3, 'ncomp': NCOMP, 'p_grains': 0.4, 'p_velocity': 0.2, 'max_bend': 40.0})
        doc = w['json']
        ctx = w['truth']['ctx']
        # plume azimuths that differ by exactly 180 degrees between two cross sections are an interpolation tie (both ways
        # round are the shortest way; rounding decides, differently after a rotation): not a symmetry question, avoided
        for f in doc['features']:
            if f['model'] == 'plume':
                ra = f['rotation angles']
                for k in range(1, len(ra)):
                    if abs(abs(ra[k] - ra[k - 1]) % 360.0 - 180.0) < 1e-6:
                        ra[k] = wg.R((ra[k] + 7.0) % 360.0)
        # give some area features a depth surface with points
        for f, t in zip(doc['features'], w['truth']['features']):
            if t['type'] in wg.AREA and wrng.random() < 0.3 and t['d1'] < 1e300:
                x, y = wg.point_in_poly_interior(wrng, t['poly'])
                f['max depth'] = [[t['d1']], [wg.R(t['d1'] * wrng.uniform(0.5, 1.5)), [[wg.R(x), wg.R(y)]]]]
        motions = []
        for m in range(2):
            if not ctx.sph:
                ang = wrng.uniform(0, 360) if wrng.random() < 0.8 else wrng.choice([90.0, 180.0, 270.0, 0.0])
                tx, ty = wrng.uniform(-1e7, 1e7), wrng.uniform(-1e7, 1e7)
                ca, sa = math.cos(math.radians(ang)), math.sin(math.radians(ang))
                c0 = w['truth']['base']

                def g(x, y, ca=ca, sa=sa, tx=tx, ty=ty, cx=c0[0], cy=c0[1]):
                    dx, dy = x - cx, y - cy
                    return cx + tx + ca * dx - sa * dy, cy + ty + sa * dx + ca * dy
                motions.append({'kind': 'rigid', 'angle': ang, 't': (tx, ty), 'g': g, 'nontrivial': ang % 90.0 != 0.0})
            else:
                lo, hi = lon_range(doc)
                omin, omax = -360.0 - lo, 360.0 - hi
                if omax - omin < 1.0:
                    continue
                r = wrng.random()
                if r < 0.25 and omin <= -360.0 + 1e-9 <= omax:
                    off = -360.0
                elif r < 0.25 and omin <= 360.0 <= omax:
                    off = 360.0
                elif r < 0.6:
                    # move the footprint across the date line
                    centre = 0.5 * (lo + hi)
                    target = wrng.choice([-180.0, 180.0]) + wrng.uniform(-3, 3)
                    off = max(omin, min(omax, target - centre))
                else:
                    off = wrng.uniform(omin, omax)
                off = wg.R(round(off * 8) / 8.0)
                if not (omin <= off <= omax):
                    continue
                lo2, hi2 = lo + off, hi + off
                crosses = (lo2 < 180.0 < hi2) or (lo2 < -180.0 < hi2) or (lo < 180.0 < hi) or (lo < -180.0 < hi)
                motions.append({'kind': 'longitude', 'offset': off, 'g': (lambda x, y, off=off: (x + off, y)), 'nontrivial': crosses or abs(off) == 360.0})
        pts = wg.sample_points(wrng, w, 60, p_inside=0.8)
        fn = 'w%d.wb' % i
        files = {fn: wg.dumps(doc)}
        c = core.Case('w%d' % i, files=files)
        world(c, 1, core.workfile(PID, fn))
        ti = [c.add('tags', 1)]
        base_idx = [q3(c, 1, ctx, sx, sy, d, PROPS) for (sx, sy, d) in pts]
        mplans = []
        for k, mo in enumerate(motions):
            gdoc = transform_doc(doc, mo['g'], mo.get('angle', 0.0), ctx.sph)
            gfn = 'w%d_g%d.wb' % (i, k)
            wg.check_exact_decimals(gdoc)
            import json as _json
            c.files[gfn] = _json.dumps(gdoc, indent=1)
            iw = world(c, 2 + k, core.workfile(PID, gfn))
            tj = c.add('tags', 2 + k)
            idx = []
            for (sx, sy, d) in pts:
                gx, gy = mo['g'](sx, sy)
                if ctx.sph:
                    gx = ((gx + 180.0) % 360.0) - 180.0
                idx.append(q3(c, 2 + k, ctx, gx, gy, d, PROPS))
            mplans.append((mo, iw, tj, idx, gfn))
        jobs.append((c, ctx, pts, ti[0], base_idx, mplans, fn, doc))
    core.run_cases('asan', [j[0] for j in jobs], PID)
    pending = []
    for (c, ctx, pts, ti, base_idx, mplans, fn, doc) in jobs:
        if c.crash:
            V.crash(c, fn)
        if not ok(c.results[0]):
            continue
        tags = c.results[ti][1].split('|') if c.results[ti][1] else []
        for (mo, iw, tj, idx, gfn) in mplans:
            rw = c.results[iw]
            if rw[0] == 'missing':
                continue
            if not ok(rw):
                V.violation('moved-world-rejected:%s' % mo['kind'], {'world': fn, 'motion': {k: v for k, v in mo.items() if k != 'g'}, 'res': rw})
                continue
            gtags = c.results[tj][1].split('|') if c.results[tj][1] else []
            for p, ia, ib in zip(pts, base_idx, idx):
                ra, rb = c.results[ia], c.results[ib]
                if ra[0] == 'missing' or rb[0] == 'missing':
                    continue
                V.count()
                motion = {k: v for k, v in mo.items() if k != 'g'}
                detail = {'world': fn, 'moved_world': gfn, 'motion': motion, 'point': p, 'W': ra, 'gW': rb}
                if ra[0] != rb[0]:
                    if 'ex' in (ra[0], rb[0]) and ok(ra) != ok(rb):
                        pending.append({'key': 'outcome-differs:%s' % mo['kind'], 'detail': detail, 'item': {'world': core.workfile(PID, fn), 'ctx': ctx, 'pt': p, 'prop': (1, 0, 0), 'delta': float('inf')}})
                    continue
                if not ok(ra):
                    continue
                va, vb = vals(ra), vals(rb)
                inside = False
                for pr, ba, bb in zip(PROPS, core.split_blocks(va, PROPS), core.split_blocks(vb, PROPS)):
                    if pr[0] == 4:
                        na = tags[int(ba[0])] if ba[0] >= 0 else None
                        nb = gtags[int(bb[0])] if bb[0] >= 0 else None
                        inside = inside or ba[0] >= 0
                        if na != nb:
                            pending.append({'key': 'tag-differs:%s' % mo['kind'], 'detail': dict(detail, tags=(na, nb)),
                                            'item': {'world': core.workfile(PID, fn), 'ctx': ctx, 'pt': p, 'prop': (1, 0, 0), 'delta': float('inf')}})
                        continue
                    delta = block_delta(ba, bb)
                    # the trench closest-point solver stops when its Newton update is below 1e-4 (quadratic convergence: a
                    # parameter error of ~1e-8), and with shifted coordinates it takes a different path to that stop: values
                    # interpolated between sections carry a relative noise of ~1e-8 (observed: 3e-5 K on 2391 K, 2e-8 on a
                    # composition). Tolerances sit one order above that floor.
                    scale = max([abs(x) for x in ba] + [0.0])
                    tol = (1e-6 + 1e-7 * scale) if pr[0] == 1 else 1e-7 * max(1.0, scale)
                    if delta > tol:
                        name = {1: 'temperature', 2: 'composition', 3: 'grains'}[pr[0]]
                        key = '%s-differs:%s' % (name, mo['kind'])
                        if pr[0] == 1 and ctx.sph and delta <= 5.0 and has_ridge(doc):
                            # the foot of a point on a ridge is found in the lon/lat plane for the point and for its +-360 alias and the
                            # nearer of the two feet (great circle distance) wins: which alias exists depends on the sign of the longitude
                            key = 'temperature-differs:longitude:ridge-distance-depends-on-the-sign-of-the-longitude(<=5K)'
                        pending.append({'key': key, 'detail': dict(detail, property=pr, delta=delta, blocks=(ba, bb)),
                                        'item': {'world': core.workfile(PID, fn), 'ctx': ctx, 'pt': p, 'prop': pr, 'delta': delta}})
                if inside and mo['nontrivial']:
                    V.nontrivial((fn, gfn, p))
        V.sample({'world': fn, 'motions': [{k: v for k, v in m[0].items() if k != 'g'} for m in mplans], 'point': pts[0], 'W': c.results[base_idx[0]][1][:60]}, limit=4)
    res = margin_pass('asan', PID, [p['item'] for p in pending], position_noise_m=0.2)
    excused = 0
    for p, (exc, info) in zip(pending, res):
        if exc:
            excused += 1
        else:
            V.violation(p['key'], dict(p['detail'], margin=info))
    V.coverage['margin_excused'] = excused
    if excused > 0.005 * max(1, V.coverage['evaluations']):
        V.inconclusive.append('%d of %d comparisons needed the margin rule (> 0.5 %%)' % (excused, V.coverage['evaluations']))
    return V.finish(floor_nontrivial=1500 if tier == 'quick' else 45000, floor_evaluations=8000)
