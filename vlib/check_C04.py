"""C04 - area features and plumes occupy exactly their declared footprint and depth range (DESIGN.md C04)."""
import math
import random
from fractions import Fraction

from . import core, worldgen as wg
from .common import q3, world, ok, vals
from .check_C19 import exact_contains, random_lattice_polygon

PID = 'C04'
PI = math.pi
AREA = ['continental plate', 'oceanic plate', 'mantle layer']


def nextafter(x, up):
    if x == 0:
        return 5e-324 if up else -5e-324
    m, e = math.frexp(x)
    eps = math.ldexp(1.0, e - 53)
    return x + eps if up else x - eps


def edge_margin(poly, x, y):
    """min distance from the point to the polygon boundary (floating point)"""
    return wg.poly_contains(poly, x, y)[1]


def area_world(rng, sph, kind):
    """single area feature world; returns (doc, truth)"""
    ctx = wg.gen_ctx(rng, sph, exotic=False)
    doc = {}
    wg.gen_globals(rng, ctx, doc, exotic=False, force_surface=False)
    ftype = rng.choice(AREA)
    lattice = None
    if kind == 'lattice':
        size = rng.choice([8, 16, 32])
        n = rng.randint(3, 10)
        ip = random_lattice_polygon(rng, n, size)
        if ip is None:
            ip = [(0, 0), (size, 0), (size, size), (0, size)]
        scale = 2.0 ** rng.randint(8, 16) if not sph else 2.0 ** rng.randint(-3, 0)
        ox = rng.choice([0.0, -2.0 ** 20, 2.0 ** 18]) if not sph else rng.choice([0.0, 100.0, -170.0, 170.0, -190.0])
        oy = rng.choice([0.0, 2.0 ** 19]) if not sph else rng.choice([0.0, -30.0, 20.0])
        poly = [(ox + scale * x, oy + scale * y) for x, y in ip]
        lattice = (ip, scale, ox, oy, size)
    else:
        if sph:
            cx = rng.choice([-1, 1]) * rng.uniform(168, 180) if kind == 'dateline' else rng.uniform(-160, 160)
            cy = rng.uniform(-60, 60)
            size = rng.uniform(3, 15)
        else:
            cx, cy, size = rng.uniform(-2e6, 2e6), rng.uniform(-2e6, 2e6), rng.uniform(1e5, 1e6)
        poly = wg.star_polygon(rng, cx, cy, 0.3 * size, size, rng.randint(3, 12), clockwise=rng.random() < 0.5)
        if sph:
            poly = [(max(-360.0, min(360.0, x)), y) for x, y in poly]
    d0 = 0.0
    poly = wg.rnd(poly)
    d1 = wg.DBL_MAX
    f = {'model': ftype, 'name': 'the feature', 'coordinates': [list(p) for p in poly]}
    if rng.random() < 0.7:
        d0 = wg.num(rng, 0, 2e5)
        f['min depth'] = d0
    if rng.random() < 0.85:
        d1 = wg.R(d0 + wg.num(rng, 1e3, 5e5))
        f['max depth'] = d1
    frac = wg.num(rng, 0.1, 1.0)
    f['composition models'] = [{'model': 'uniform', 'compositions': [0], 'fractions': [frac]}]
    # depth bounds as surfaces: the values listed at every polygon corner (and one or two further points) sample an affine function
    # of the surface coordinates, which the piecewise linear interpolation reproduces; all four combinations number/surface
    surf0 = surf1 = None
    if kind != 'lattice' and rng.random() < 0.45 and not any(p[0] == 0.0 or p[1] == 0.0 for p in poly):
        x0, y0, x1, y1 = wg.poly_bbox(poly)
        w = max(x1 - x0, y1 - y0)
        xm, ym = 0.5 * (x0 + x1), 0.5 * (y0 + y1)

        def affine(base, amp):
            bx, by = rng.uniform(-1, 1) * amp / w, rng.uniform(-1, 1) * amp / w
            return (base, bx, by, xm, ym)

        def table(fn):
            pts = list(poly)
            for _ in range(rng.randint(0, 2)):
                pts.append(wg.point_in_poly_interior(rng, poly))
            pts = [(wg.R(px), wg.R(py)) for px, py in pts]
            return [[wg.R(fn[0])]] + [[wg.R(fn[0] + fn[1] * (px - fn[3]) + fn[2] * (py - fn[4])), [[px, py]]] for px, py in pts]
        which = rng.choice(['max', 'min', 'both'])
        base1 = d1 if d1 < 1e300 else wg.R(d0 + wg.num(rng, 5e4, 3e5))
        if which in ('max', 'both'):
            surf1 = affine(base1, 0.3 * (base1 - d0))
            f['max depth'] = table(surf1)
            d1 = base1
        if which in ('min', 'both') and d0 > 0:
            surf0 = affine(d0, min(0.3 * (base1 - d0), 0.8 * d0))
            f['min depth'] = table(surf0)
    doc['features'] = [f]
    return doc, {'ctx': ctx, 'poly': poly, 'd0': d0, 'd1': d1, 'frac': frac, 'lattice': lattice, 'ftype': ftype, 'kind': kind, 'surf0': surf0, 'surf1': surf1}


def area_points(rng, t, n):
    """-> list of (sx, sy, depth, expected inside (bool) or None to skip, nontrivial flag)"""
    ctx = t['ctx']
    poly = t['poly']
    d0, d1 = t['d0'], t['d1']
    x0, y0, x1, y1 = wg.poly_bbox(poly)
    size = max(x1 - x0, y1 - y0)
    out = []
    fpoly = [(Fraction(x), Fraction(y)) for x, y in poly]
    dtop = d1 if d1 < 1e300 else d0 + 5e5
    surfaces = t.get('surf0') or t.get('surf1')

    def local_bounds(sx, sy):
        l0, l1 = d0, d1
        if t.get('surf0'):
            b, bx, by, xm, ym = t['surf0']
            l0 = b + bx * (sx - xm) + by * (sy - ym)
        if t.get('surf1'):
            b, bx, by, xm, ym = t['surf1']
            l1 = b + bx * (sx - xm) + by * (sy - ym)
        return l0, l1

    def local_depth(sx, sy):
        """depth and expectation against the local bounds of a surface (rounding margin 1e-7 relative: skip)"""
        l0, l1 = local_bounds(sx, sy)
        unbounded = l1 > 1e300
        if unbounded:
            l1 = l0 + 5e5
        r = rng.random()
        if r < 0.4:
            d = rng.uniform(l0, l1)
        elif r < 0.8:
            b = rng.choice([l0, l1])
            d = b + rng.choice([-1, 1]) * rng.uniform(1e-4, 0.1) * (l1 - l0)
        else:
            d = rng.choice([l0 - rng.uniform(1, 1e4), l1 + rng.uniform(1, 1e5)])
        if min(abs(d - l0), abs(d - l1)) < 1e-7 * max(abs(l1), 1.0) + 1e-3:
            return None, None
        return d, (l0 <= d and (unbounded or d <= l1))
    for _ in range(n):
        nontrivial = False
        # depth
        r = rng.random()
        if r < 0.55:
            d = rng.uniform(d0, dtop)
            din = True
        elif r < 0.7:
            d = rng.choice([d0, d1 if d1 < 1e300 else dtop])
            din = True
            nontrivial = True
        elif r < 0.85:
            d = rng.choice([nextafter(d0, False), nextafter(d1, True)]) if d1 < 1e300 else nextafter(d0, False)
            din = False
            nontrivial = True
            if d < 0 and d0 == 0:
                din = False
        else:
            d = rng.choice([d0 - rng.uniform(1, 1e4), (d1 if d1 < 1e300 else dtop) + rng.uniform(1, 1e5)])
            din = (d0 <= d <= d1)
        # surface position
        if t['lattice']:
            ip, scale, ox, oy, lsize = t['lattice']
            if rng.random() < 0.35:
                k = rng.randrange(len(ip))
                a, b = ip[k], ip[(k + 1) % len(ip)]
                g = math.gcd(abs(b[0] - a[0]), abs(b[1] - a[1]))
                tt = rng.randint(0, g)
                px2, py2 = 2 * (a[0] + (b[0] - a[0]) * tt // g), 2 * (a[1] + (b[1] - a[1]) * tt // g)
            else:
                px2, py2 = rng.randint(-2, 2 * lsize + 2), rng.randint(-2, 2 * lsize + 2)
            e = exact_contains([(2 * x, 2 * y) for x, y in ip], px2, py2)
            sx, sy = ox + scale * px2 / 2.0, oy + scale * py2 / 2.0
            if ctx.sph:
                # rounding in the cartesian -> lon/lat conversion: boundary points are not exactly representable
                if e == 2:
                    continue
                pin = e == 1
                if edge_margin(poly, sx, sy) < 1e-9 * size:
                    continue
                # the query longitude must be within [-180,180]
                qsx = ((sx + 180.0) % 360.0) - 180.0
                if qsx != sx:
                    nontrivial = True
                out.append((qsx, sy, d, pin and din, nontrivial or e == 1))
                continue
            pin = e != 0
            out.append((sx, sy, d, pin and din, nontrivial or e == 2))
            continue
        if rng.random() < 0.5:
            # near the boundary (within 5 % of the size)
            k = rng.randrange(len(poly))
            a, b = poly[k], poly[(k + 1) % len(poly)]
            u = rng.uniform(0, 1)
            ex, ey = b[0] - a[0], b[1] - a[1]
            L = math.hypot(ex, ey)
            off = rng.uniform(-0.05, 0.05) * size
            sx, sy = a[0] + u * ex - ey / L * off, a[1] + u * ey + ex / L * off
            nontrivial = True
        else:
            sx, sy = rng.uniform(x0 - 0.2 * size, x1 + 0.2 * size), rng.uniform(y0 - 0.2 * size, y1 + 0.2 * size)
        if ctx.sph:
            sy = max(-89.9, min(89.9, sy))
            if edge_margin(poly, sx, sy) < 1e-9 * size:
                continue
            qsx = ((sx + 180.0) % 360.0) - 180.0
            pin = any(exact_contains(fpoly, Fraction(qsx) + k * 360, Fraction(sy)) != 0 for k in (0, 1, -1))
            if abs(qsx - sx) > 1:
                nontrivial = True
            # keep away from the margin also for the aliases
            if min(edge_margin(poly, qsx + k * 360.0, sy) for k in (0, 1, -1)) < 1e-9 * size:
                continue
            if surfaces:
                # the surface is interpolated at the longitude alias that lies inside the polygon
                ax = next((qsx + k * 360.0 for k in (0, 1, -1) if exact_contains(fpoly, Fraction(qsx) + k * 360, Fraction(sy)) != 0), sx)
                d, din = local_depth(ax, sy)
                if d is None or d < 0:
                    continue
                nontrivial = True
            out.append((qsx, sy, d, pin and din, nontrivial))
        else:
            pin = exact_contains(fpoly, Fraction(sx), Fraction(sy)) != 0
            if surfaces:
                d, din = local_depth(sx, sy)
                if d is None or d < 0:
                    continue
                nontrivial = True
            out.append((sx, sy, d, pin and din, nontrivial))
    return out


# ------------------------------------------------------------------------------------------------ plume
class AmbiguousAngle(Exception):
    pass


def plume_world(rng, sph, dateline=False):
    ctx = wg.gen_ctx(rng, sph, exotic=False)
    doc = {}
    wg.gen_globals(rng, ctx, doc, exotic=False, force_surface=False)
    where = None
    if sph:
        cx = rng.choice([-1, 1]) * rng.uniform(174, 180) if dateline else rng.uniform(-160, 160)
        where = (cx, rng.uniform(-50, 50), rng.uniform(3, 12))
    f, t = wg.gen_feature(rng, ctx, 'plume', 0, 1, {'p_temperature': 0, 'p_composition': 0, 'p_grains': 0, 'p_velocity': 0}, where)
    frac = wg.num(rng, 0.1, 1.0)
    f['composition models'] = [{'model': 'uniform', 'compositions': [0], 'fractions': [frac]}]
    doc['features'] = [wg.strip(f)]
    t = dict(t, ctx=ctx, frac=frac, dateline=dateline)
    return doc, t


def plume_reference(t, sx, sy, depth, alias=True):
    """-> (inside, margin) from the statement of C04; margin = | ellipse fraction - 1 |"""
    d0, d1 = t['d0'], t['d1']
    depths, coords, a, e, ang = t['depths'], t['coords'], t['a'], t['e'], t['angles']
    if depth < d0 or depth > d1:
        return False, min(abs(depth - d0), abs(depth - d1)) if depth < d0 or d1 < 1e300 else 1.0
    n = len(depths)
    head = depth < depths[0]
    if head:
        c, A, E, alpha = coords[0], a[0], e[0], ang[0]
    elif depth >= depths[-1]:
        c, A, E, alpha = coords[-1], a[-1], e[-1], ang[-1]
    else:
        i = 1
        while depths[i] <= depth:
            i += 1
        f = (depth - depths[i - 1]) / (depths[i] - depths[i - 1])
        c = ((1 - f) * coords[i - 1][0] + f * coords[i][0], (1 - f) * coords[i - 1][1] + f * coords[i][1])
        A = (1 - f) * a[i - 1] + f * a[i]
        E = (1 - f) * e[i - 1] + f * e[i]
        dd = ang[i] - ang[i - 1]
        if abs(abs(dd) - 180.0) < 1e-6:
            raise AmbiguousAngle()       # both ways round are 'the shortest way'
        if abs(dd) > 180.0:
            dd -= math.copysign(360.0, dd)
        alpha = ang[i - 1] + f * dd
    best = None
    shifts = (0.0, 360.0, -360.0) if (t['ctx'].sph and alias) else (0.0,)
    for sh in shifts:
        dx, dy = sx + sh - c[0], sy - c[1]
        th = math.radians(alpha)
        # major axis points towards azimuth alpha (clockwise from north / +y)
        u = dx * math.sin(th) + dy * math.cos(th)
        v = -dx * math.cos(th) + dy * math.sin(th)
        B = A * math.sqrt(1 - E * E)
        frac = (u * u) / (A * A) + (v * v) / (B * B)
        if head:
            cc = depths[0] - d0
            z = depths[0] - depth
            frac += (z * z) / (cc * cc)
        if best is None or frac < best:
            best = frac
    return best <= 1.0, abs(best - 1.0)


def plume_points(rng, t, n):
    ctx = t['ctx']
    d0, d1 = t['d0'], t['d1']
    depths = t['depths']
    out = []
    dbot = d1 if d1 < 1e300 else depths[-1] + 3e5
    for _ in range(n):
        r = rng.random()
        if r < 0.3:
            d = rng.uniform(d0, depths[0])
        elif r < 0.8:
            d = rng.uniform(depths[0], dbot)
        elif r < 0.9:
            d = rng.choice(depths + [d0, dbot])
        else:
            d = rng.choice([d0 - rng.uniform(1, 1e4), dbot + rng.uniform(1, 1e5), nextafter(d0, False)])
        # centre near this depth
        i = 0
        while i < len(depths) - 1 and depths[i + 1] < d:
            i += 1
        c = t['coords'][i]
        A = t['a'][i]
        rr = A * rng.uniform(0, 1.6) if rng.random() < 0.8 else A * rng.uniform(0.9, 1.1)
        an = rng.uniform(0, 2 * PI)
        sx, sy = c[0] + rr * math.cos(an), c[1] + rr * math.sin(an)
        if ctx.sph:
            sy = max(-89.0, min(89.0, sy))
            sx = ((sx + 180.0) % 360.0) - 180.0
        try:
            inside, margin = plume_reference(t, sx, sy, d)
            noalias_inside, _m = plume_reference(t, sx, sy, d, alias=False)
        except AmbiguousAngle:
            continue
        if margin < 1e-9 and d0 <= d <= d1:
            continue
        head = d0 <= d < depths[0]
        out.append((sx, sy, d, inside, (head or abs(margin) < 0.3), inside != noalias_inside))
    return out


def main(tier, seed, replay):
    core.build('asan')
    rng = random.Random(seed * 2147483 + 4)
    V = core.Verdict(PID, tier, seed)
    V.coverage['rule'] = ('single-feature worlds; area features: exact rational closed-polygon x closed depth interval oracle (cartesian: every point incl. boundary lattice points and the depths min/max and their '
                          'floating point neighbours; spherical: points with clear margin, +-360 alias); plumes: reference built from the statement (interpolated ellipses, half-ellipsoid head, continuation below); '
                          'non-trivial = points within 5 % of the boundary, exact boundary points, points reached through the alias, plume head points')
    n_area, n_plume = (300, 150) if tier == 'quick' else (9000, 4500)
    jobs = []
    for i in range(n_area):
        wrng = random.Random(rng.getrandbits(48))
        sph = wrng.random() < 0.45
        kind = wrng.choice(['random', 'random', 'lattice', 'dateline' if sph else 'random'])
        doc, t = area_world(wrng, sph, kind)
        pts = area_points(wrng, t, 60)
        fn = 'a%d.wb' % i
        c = core.Case('a%d' % i, files={fn: wg.dumps(doc)})
        world(c, 1, core.workfile(PID, fn))
        plan = [(p, q3(c, 1, t['ctx'], p[0], p[1], p[2], [(4, 0, 0), (2, 0, 0)])) for p in pts]
        jobs.append(('area', c, t, plan, fn))
    for i in range(n_plume):
        wrng = random.Random(rng.getrandbits(48))
        sph = wrng.random() < 0.45
        doc, t = plume_world(wrng, sph, dateline=sph and wrng.random() < 0.3)
        pts = plume_points(wrng, t, 80)
        fn = 'p%d.wb' % i
        c = core.Case('p%d' % i, files={fn: wg.dumps(doc)})
        world(c, 1, core.workfile(PID, fn))
        plan = [(p, q3(c, 1, t['ctx'], p[0], p[1], p[2], [(4, 0, 0), (2, 0, 0)])) for p in pts]
        jobs.append(('plume', c, t, plan, fn))
    core.run_cases('asan', [j[1] for j in jobs], PID)
    for (kind, c, t, plan, fn) in jobs:
        if c.crash:
            V.crash(c, fn)
        if not ok(c.results[0]):
            V.violation('world-rejected:%s' % kind, {'world': fn, 'res': c.results[0]})
            continue
        sysname = 'spherical' if t['ctx'].sph else 'cartesian'
        for (p, idx) in plan:
            res = c.results[idx]
            if res[0] == 'missing':
                continue
            V.count()
            if not ok(res):
                V.violation('query-threw:%s' % kind, {'world': fn, 'point': p, 'res': res})
                continue
            v = vals(res)
            got = v[0] == 0.0
            want = p[3]
            comp_ok = (v[1] == t['frac']) if got else (v[1] == 0.0)
            if got != want or not comp_ok or v[0] not in (0.0, -1.0):
                if kind == 'area':
                    cls = 'lattice' if t['lattice'] else t['kind']
                    key = 'area-footprint-wrong:%s:%s:%s' % (sysname, cls, 'library-says-inside' if got else 'library-says-outside')
                else:
                    key = 'plume-footprint-wrong:%s:%s%s' % (sysname, 'library-says-inside' if got else 'library-says-outside', ':only-through-360-alias' if p[5] else '')
                if got == want and not comp_ok:
                    key = 'composition-inconsistent-with-tag:%s' % kind
                V.violation(key, {'world': fn, 'point': p[:3], 'expected_inside': want, 'tag': v[0], 'composition': v[1], 'truth': {k: t[k] for k in t if k != 'ctx'}})
            if p[4]:
                V.nontrivial((fn, p[0], p[1], p[2]))
            if kind == 'plume' and p[5]:
                V.coverage['plume_alias_points'] = V.coverage.get('plume_alias_points', 0) + 1
        V.sample({'world': fn, 'kind': kind, 'system': sysname, 'point': plan[0][0][:3] if plan else None, 'expected_inside': plan[0][0][3] if plan else None})
    return V.finish(floor_nontrivial=3000 if tier == 'quick' else 50000, floor_evaluations=10000)
