"""C11 - depth surfaces given at points are honoured, affine-exact and bounded (DESIGN.md C11)."""
import math
import random

from . import core, worldgen as wg
from .common import world, ok, vals, q3, rel_close

PID = 'C11'
PI = math.pi
DBL_MAX = wg.DBL_MAX


def interior_points(rng, poly, n, generic=True):
    pts = []
    x0, y0, x1, y1 = wg.poly_bbox(poly)
    size = max(x1 - x0, y1 - y0)
    tries = 0
    while len(pts) < n and tries < 2000:
        tries += 1
        x, y = wg.R(rng.uniform(x0, x1)), wg.R(rng.uniform(y0, y1))
        ins, d = wg.poly_contains(poly, x, y)
        if ins and d > 0.03 * size and all(math.hypot(x - p[0], y - p[1]) > 0.03 * size for p in pts):
            pts.append((x, y))
    return pts


def convex_polygon(rng, cx, cy, size, n):
    angles = sorted(rng.uniform(0, 2 * PI) for _ in range(n))
    for _ in range(100):
        if all((angles[(i + 1) % n] - angles[i]) % (2 * PI) > 0.3 for i in range(n)) and max((angles[(i + 1) % n] - angles[i]) % (2 * PI) for i in range(n)) < PI - 0.2:
            break
        angles = sorted(rng.uniform(0, 2 * PI) for _ in range(n))
    else:
        angles = [2 * PI * i / n + 0.2 for i in range(n)]
    return [(wg.R(cx + size * math.cos(a)), wg.R(cy + size * math.sin(a))) for a in angles]


def hull_contains(poly, x, y):
    return wg.poly_contains(poly, x, y)


# ------------------------------------------------------------------------------------ direct Surface cases
def gen_direct(rng, i):
    sph = rng.random() < 0.3
    if sph:
        cx, cy, size = rng.uniform(-2.5, 2.5), rng.uniform(-0.8, 0.8), rng.uniform(0.05, 0.3)
        if rng.random() < 0.3:
            cx = rng.choice([-1, 1]) * (PI - rng.uniform(0, 0.1))
    else:
        cx, cy, size = rng.uniform(-2e6, 2e6), rng.uniform(-2e6, 2e6), rng.uniform(1e5, 1e6)
    poly = convex_polygon(rng, cx, cy, size, rng.randint(3, 8))
    nin = rng.choice([0, 1, 2, 3, 5, 10, 30])
    inner = interior_points(rng, poly, nin)
    if rng.random() < 0.3 and len(inner) >= 1:
        # a collinear triple: midpoint of two nodes
        a = rng.choice(poly)
        b = rng.choice(inner)
        inner.append((wg.R(0.5 * (a[0] + b[0])), wg.R(0.5 * (a[1] + b[1]))))
    nodes = list(poly) + inner
    mode = rng.choice(['random', 'affine', 'affine', 'flat-with-bumps', 'default-corners'])
    if mode == 'affine':
        a0 = rng.uniform(1e4, 2e5)
        gx, gy = rng.uniform(-0.1, 0.1), rng.uniform(-0.1, 0.1)
        if sph:
            gx, gy = gx * 1e6, gy * 1e6
        values = [a0 + gx * (p[0] - cx) + gy * (p[1] - cy) for p in nodes]
        aff = (a0, gx, gy, cx, cy)
    elif mode == 'random':
        values = [wg.R(rng.uniform(0, 3e5)) for _ in nodes]
        aff = None
    elif mode == 'default-corners':
        # what a 'max depth' list without a base value produces: unlisted corners keep the documented default DBL_MAX
        values = [wg.R(rng.uniform(2e4, 3e5)) for _ in nodes]
        for k in rng.sample(range(len(poly)), rng.randint(1, len(poly))):
            values[k] = DBL_MAX
        aff = None
    else:
        base = wg.R(rng.uniform(1e4, 2e5))
        values = [base] * len(poly) + [wg.R(base + rng.uniform(-1e4, 1e5)) for _ in inner]
        aff = None
    c = core.Case('d%d' % i)
    flat = []
    for p in nodes:
        flat += [core.hx(p[0]), core.hx(p[1])]
    c.add('surf_new', 1, len(values), *[core.hx(v) for v in values], *flat)
    sysc = 's' if sph else 'c'
    plan = []
    for k, p in enumerate(nodes):
        plan.append(('node', p, k, c.add('surf_q', 1, sysc, core.hx(p[0]), core.hx(p[1]))))
    x0, y0, x1, y1 = wg.poly_bbox(poly)
    n_q = 0
    while n_q < 40:
        x, y = rng.uniform(x0, x1), rng.uniform(y0, y1)
        ins, d = hull_contains(poly, x, y)
        if not ins or d < 1e-6 * size:
            continue
        n_q += 1
        qx = x
        alias = False
        if sph and rng.random() < 0.3:
            qx = x - 2 * PI if x > 0 else x + 2 * PI
            alias = True
        plan.append(('inside', (x, y), alias, c.add('surf_q', 1, sysc, core.hx(qx), core.hx(y))))
    # near an edge between two nodes
    for _ in range(10):
        a, b = rng.sample(nodes, 2)
        u = rng.uniform(0.1, 0.9)
        x, y = a[0] + u * (b[0] - a[0]), a[1] + u * (b[1] - a[1])
        ins, d = hull_contains(poly, x, y)
        if ins and d > 1e-6 * size:
            plan.append(('edge', (x, y), False, c.add('surf_q', 1, sysc, core.hx(x), core.hx(y))))
    return c, {'nodes': nodes, 'values': values, 'aff': aff, 'mode': mode, 'sph': sph, 'npoly': len(poly)}, plan


def check_direct(V, c, t, plan):
    if c.crash:
        V.crash(c, 'direct surface')
        return
    if not ok(c.results[0]):
        # degenerate triangulations are rejected input, not violations
        V.coverage['rejected_surfaces'] = V.coverage.get('rejected_surfaces', 0) + 1
        return
    vmin, vmax = min(t['values']), max(t['values'])
    scale = max(abs(vmin), abs(vmax), 1.0)
    for (kind, p, extra, idx) in plan:
        res = c.results[idx]
        V.count()
        detail = {'nodes': t['nodes'], 'values': t['values'], 'query': p, 'kind': kind, 'res': res, 'spherical': t['sph'], 'mode': t['mode']}
        if not ok(res):
            V.violation('surface:lookup-throws-inside-the-hull:%s' % kind, detail)
            continue
        v = core.fh(res[1].split(' ')[0])
        if t['mode'] == 'default-corners':
            # only the listed (finite) nodes are judged: the value there is the listed one, or - the known finding - rounding of the
            # barycentric weights (~1e-16) times DBL_MAX has swamped it: |value| >= 1e270, not finite, or exactly 0 (two swamping terms
            # of opposite sign cancel after the listed value was absorbed; seen on the unchanged tree). Anything else is new.
            if kind == 'node' and t['values'][extra] < 1e300:
                want = t['values'][extra]
                fscale = max([abs(x) for x in t['values'] if abs(x) < 1e300] + [1.0])      # same rule as the other modes: 1e-10 of the largest finite nodal value
                if abs(v - want) <= 1e-10 * fscale:
                    V.nontrivial(('default-corner-node', c.cid, extra))
                elif v != v or abs(v) >= 1e270 or v == 0.0:
                    V.violation('surface:max-depth:listed-point-next-to-DBL_MAX-default-corner', dict(detail, got=v, want=want))
                else:
                    V.violation('surface:value-at-a-listed-point-next-to-a-default-corner-is-neither-the-listed-value-nor-swamped-by-the-default', dict(detail, got=v, want=want))
            continue
        if v != v or abs(v) == float('inf'):
            V.violation('surface:value-not-finite', dict(detail, got=v))
            continue
        if kind == 'node':
            want = t['values'][extra]
            # barycentric weights carry a rounding error of eps * |x||y| / area (coordinates are large compared with the triangle)
            if abs(v - want) > 1e-10 * scale:
                V.violation('surface:value-at-listed-point-is-not-the-listed-value', dict(detail, got=v, want=want))
            V.nontrivial(('node', c.cid, extra))
        if v < vmin - 1e-10 * scale or v > vmax + 1e-10 * scale:
            V.violation('surface:value-outside-nodal-range', dict(detail, got=v, range=(vmin, vmax)))
        if t['aff'] is not None:
            a0, gx, gy, cx, cy = t['aff']
            want = a0 + gx * (p[0] - cx) + gy * (p[1] - cy)
            if abs(v - want) > 1e-10 * scale:
                V.violation('surface:affine-data-not-reproduced', dict(detail, got=v, want=want))
            V.nontrivial(('affine', c.cid, p))
        if kind == 'edge' or extra is True:
            V.nontrivial((kind, c.cid, p))
    V.sample({'surface_nodes': t['nodes'][:6], 'values': t['values'][:6], 'mode': t['mode'], 'query': plan[-1][1], 'answer': c.results[plan[-1][3]][1]}, limit=3)


# ------------------------------------------------------------------------------------ world level cases
def gen_world_case(rng, i):
    sph = rng.random() < 0.35
    ctx = wg.gen_ctx(rng, sph, exotic=False)
    doc = {}
    wg.gen_globals(rng, ctx, doc, exotic=False, force_surface=False)
    zero_corner = rng.random() < 0.35
    if sph:
        cx, cy, size = wg.R(rng.uniform(-150, 150)), wg.R(rng.uniform(-40, 40)), wg.R(rng.uniform(4, 12))
    else:
        cx, cy, size = wg.num(rng, -1e6, 1e6), wg.num(rng, -1e6, 1e6), wg.num(rng, 2e5, 8e5)
    poly = convex_polygon(rng, cx, cy, size, rng.randint(3, 6))
    if zero_corner:
        # move the polygon so that one corner has a zero coordinate
        k = rng.randrange(len(poly))
        axis = rng.randrange(2)
        shift = poly[k][axis]
        poly = [(wg.R(p[0] - shift), p[1]) if axis == 0 else (p[0], wg.R(p[1] - shift)) for p in poly]
        poly[k] = (0.0, poly[k][1]) if axis == 0 else (poly[k][0], 0.0)
    which = rng.choice(['max depth', 'max depth', 'min depth'])
    default = DBL_MAX if which == 'max depth' else 0.0
    base = None
    items = []
    if rng.random() < 0.6:
        base = wg.num(rng, 5e4, 2e5)
        items.append([base])
    inner = interior_points(rng, poly, rng.choice([1, 2, 3, 6]))
    listed = {}
    for p in inner:
        v = wg.num(rng, 2e4, 3e5)
        listed[p] = v
    corner_listed = {}
    if rng.random() < 0.7:
        for k in rng.sample(range(len(poly)), rng.randint(1, len(poly))):
            corner_listed[k] = wg.num(rng, 2e4, 3e5)
    # group listed points by value into items
    for p, v in listed.items():
        items.append([v, [[p[0], p[1]]]])
    for k, v in corner_listed.items():
        items.append([v, [[poly[k][0], poly[k][1]]]])
    base_late_corners = set()
    if base is not None:
        # the point-less [value] entry sets the polygon corners wherever it stands in the list: it must leave every listed interior
        # point alone; a corner listed in front of it is set twice (which of the two wins is not documented: not judged)
        rest = items[1:]
        rng.shuffle(rest)
        pos = rng.randrange(len(rest) + 1) if rng.random() < 0.5 else 0
        items = rest[:pos] + [[base]] + rest[pos:]
        early = [tuple(it[1][0]) for it in rest[:pos]]
        base_late_corners = set(k for k in corner_listed if (poly[k][0], poly[k][1]) in early)
    else:
        rng.shuffle(items)
    ftype = rng.choice(['continental plate', 'oceanic plate', 'mantle layer'])
    # the surface belongs to the feature or to one of its models (every area feature type x temperature / composition / velocity model):
    # the model then applies between its own local bounds, and the probe looks at the value only that model paints
    level = rng.choice(['feature', 'feature', 'composition model', 'temperature model', 'velocity model'])
    f = {'model': ftype, 'name': 'the feature', 'coordinates': [list(p) for p in poly],
         'composition models': [{'model': 'uniform', 'compositions': [0]}], 'temperature models': [{'model': 'uniform', 'temperature': 111.0}],
         'velocity models': [{'model': 'uniform raw', 'velocity': [0.25, 0.0, 0.0]}]}
    holder = f if level == 'feature' else f[level + 's'][0]
    holder[which] = items
    if which != 'max depth':
        holder['max depth'] = 1.0e6
    if level != 'feature':
        f['max depth'] = 6.0e6
    doc['features'] = [f]
    fn = 'w%d.wb' % i
    c = core.Case('w%d' % i, files={fn: wg.dumps(doc)})
    world(c, 1, core.workfile(PID, fn))
    props = [(4, 0, 0), (2, 0, 0), (1, 0, 0), (5, 0, 0)]
    plan = []
    node_values = {}
    for k, p in enumerate(poly):
        node_values[p] = corner_listed.get(k, base if base is not None else default)
    for p, v in listed.items():
        node_values[p] = v

    def probe(kind, p, v, extra=None):
        # for a max depth v: present at v(1-1e-9), absent at v(1+1e-9); for a min depth: mirrored
        lo, hi = v * (1 - 1e-9), v * (1 + 1e-9)
        i1 = q3(c, 1, ctx, p[0], p[1], lo, props)
        i2 = q3(c, 1, ctx, p[0], p[1], hi, props)
        plan.append((kind, p, v, i1, i2, extra))

    for p, v in listed.items():
        probe('listed', p, v)
    if not sph:
        for k, p in enumerate(poly):
            if k in base_late_corners:
                continue
            if k in corner_listed:
                probe('listed-corner', p, corner_listed[k], {'zero': p[0] == 0.0 or p[1] == 0.0})
            elif base is not None:
                probe('base-corner', p, base)
            else:
                # documented default: max depth unlimited / min depth 0
                if which == 'max depth':
                    plan.append(('default-corner', p, None, q3(c, 1, ctx, p[0], p[1], 5.0e6, props), None, None))
                else:
                    plan.append(('default-corner', p, None, q3(c, 1, ctx, p[0], p[1], 1.0, props), None, None))
    # bounds at random interior points (only when every nodal value is finite)
    finite = [v for v in node_values.values() if v < 1e300]
    if len(finite) == len(node_values):
        vmin, vmax = min(finite + ([base] if base_late_corners else [])), max(finite + ([base] if base_late_corners else []))
        x0, y0, x1, y1 = wg.poly_bbox(poly)
        n = 0
        tries = 0
        while n < 15 and tries < 500:
            tries += 1
            x, y = rng.uniform(x0, x1), rng.uniform(y0, y1)
            ins, d = wg.poly_contains(poly, x, y)
            if not ins or d < 1e-3 * size:
                continue
            n += 1
            if which == 'max depth':
                i1 = q3(c, 1, ctx, x, y, vmin * (1 - 1e-9), props)      # must be present
                i2 = q3(c, 1, ctx, x, y, vmax * (1 + 1e-9), props)      # must be absent
            else:
                i1 = q3(c, 1, ctx, x, y, vmax * (1 + 1e-9), props)      # present (below every nodal min depth)
                i2 = q3(c, 1, ctx, x, y, vmin * (1 - 1e-9), props)      # absent (above every nodal min depth)
            plan.append(('bounds', (x, y), (vmin, vmax), i1, i2, None))
    zero_listed = any((poly[k][0] == 0.0 or poly[k][1] == 0.0) for k in corner_listed)
    t = {'level': level, 'which': which, 'poly': poly, 'items': items, 'sph': sph, 'base': base, 'fn': fn, 'node_values': node_values, 'default_nodes': base is None and len(corner_listed) < len(poly), 'zero_listed': zero_listed}
    return c, t, plan


def present(res, level='feature'):
    v = vals(res)       # tag, composition 0, temperature, velocity
    if level == 'feature':
        return v[0] == 0.0
    if level == 'composition model':
        return v[1] == 1.0
    if level == 'temperature model':
        return v[2] == 111.0
    return v[3] == 0.25


def check_world(V, c, t, plan):
    if c.crash:
        V.crash(c, t['fn'])
    if not ok(c.results[0]):
        V.coverage['rejected_worlds'] = V.coverage.get('rejected_worlds', 0) + 1
        V.notes.append(c.results[0][1][:150]) if len(V.notes) < 5 else None
        return
    is_max = t['which'] == 'max depth'
    lv = '' if t['level'] == 'feature' else ':' + t['level'].replace(' ', '-')
    for (kind, p, v, i1, i2, extra) in plan:
        V.count()
        r1 = c.results[i1]
        r2 = c.results[i2] if i2 is not None else None
        detail = {'world': t['fn'], 'level': t['level'], 'which': t['which'], 'items': t['items'], 'polygon': t['poly'], 'point': p, 'value': v, 'kind': kind, 'r1': r1, 'r2': r2}
        if not ok(r1) or (r2 is not None and not ok(r2)):
            V.violation('query-threw:%s' % kind, detail)
            continue
        if kind == 'default-corner':
            if not present(r1, t['level']):
                V.violation('unlisted-corner-does-not-get-the-documented-default:%s%s' % (t['which'], lv), detail)
            V.nontrivial(('default', t['fn'], p))
            continue
        a, b = present(r1, t['level']), present(r2, t['level'])
        # (a, b) = (present shallower, present deeper) for max depth; for min depth (absent shallower -> present deeper) mirrored
        if kind == 'bounds':
            good = a and not b
        else:
            good = (a and not b) if is_max else ((not a) and b)
        if good:
            if kind != 'bounds':
                V.nontrivial((kind, t['fn'], p))
            continue
        if (kind == 'listed-corner' and extra and extra.get('zero')) or (t['zero_listed'] and kind in ('bounds', 'listed', 'listed-corner')):
            # approx(0,0) is false: the value listed at a corner with a zero coordinate is appended as a duplicate node, the corner keeps
            # its default (DBL_MAX for max depth), which then also spoils the interpolation around it
            key = 'corner-with-zero-coordinate:listed-value-does-not-replace-default'
        elif kind in ('listed', 'listed-corner') and is_max and t['default_nodes']:
            key = 'max-depth:listed-point-next-to-DBL_MAX-default-corner'
        elif kind == 'bounds':
            key = 'interpolated-depth-outside-nodal-range:%s%s' % (t['which'], lv)
        else:
            key = 'listed-value-not-honoured:%s:%s%s' % (kind, t['which'], lv)
        V.violation(key, detail)
    V.sample({'world': t['fn'], 'which': t['which'], 'items': t['items'][:4], 'polygon': t['poly']}, limit=3)


def main(tier, seed, replay):
    core.build('asan')
    rng = random.Random(seed * 48611 + 11)
    V = core.Verdict(PID, tier, seed)
    V.coverage['rule'] = ('(a) Objects::Surface built directly from nodal values/points (convex hulls with 0-30 interior nodes, collinear triples, affine / random / flat-with-bumps data, cartesian and spherical incl. the '
                          '2pi alias) queried at every node, at random hull points and near edges: listed value at a node, min <= value <= max, affine data reproduced; (b) area features whose min/max depth is given as values '
                          'at points, probed with a uniform composition just above and below the expected depth at listed interior points, listed corners (incl. corners with a zero coordinate), base-value corners, default '
                          'corners, and at random points against the nodal range; non-trivial = node/edge/alias/affine probes and honoured listed points')
    n_direct, n_world = (200, 250) if tier == 'quick' else (6000, 7500)
    jobs = []
    for i in range(n_direct):
        wrng = random.Random(rng.getrandbits(48))
        jobs.append(('direct',) + gen_direct(wrng, i))
    for i in range(n_world):
        wrng = random.Random(rng.getrandbits(48))
        jobs.append(('world',) + gen_world_case(wrng, i))
    core.run_cases('asan', [j[1] for j in jobs], PID)
    for (kind, c, t, plan) in jobs:
        if kind == 'direct':
            check_direct(V, c, t, plan)
        else:
            check_world(V, c, t, plan)
    return V.finish(floor_nontrivial=2000 if tier == 'quick' else 50000, floor_evaluations=8000)
