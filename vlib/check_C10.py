"""C10 - segment models are inherited and sections interpolate only between neighbours (DESIGN.md C10)."""
import copy
import math
import random

from . import core, worldgen as wg
from .common import world, ok, vals, q3

PID = 'C10'
PI = math.pi
PROPS = [(1, 0, 0), (2, 0, 0), (2, 1, 0), (4, 0, 0), (3, 0, 2), (5, 0, 0)]      # tag stays at index 3
KINDS = ['temperature models', 'composition models', 'grains models', 'velocity models']


def base_feature(rng, ctx, ncoords, collinear=False):
    ftype = rng.choice(['subducting plate', 'subducting plate', 'fault'])
    where = None
    if ctx.sph:
        where = (wg.R(rng.uniform(-150, 150)), wg.R(rng.uniform(-40, 40)), wg.R(rng.uniform(4, 10)))
    f, t = wg.gen_line_feature(rng, ctx, ftype, 0, 2, {'sections': False, 'segment_models': False, 'p_temperature': 0, 'p_composition': 0, 'p_grains': 0, 'p_velocity': 0,
                                                        'ncoords': ncoords, 'max_bend': 0.0 if collinear else 25.0}, where)
    f = wg.rnd(wg.strip(f))
    t = wg.rnd(t)
    f.pop('sections', None)
    for s in f['segments']:
        for k in KINDS:
            s.pop(k, None)
        # a negative top truncation admits points above the slab top, where models with the default distance range (>= 0) do
        # not apply: that is range behaviour (C05), not interpolation, and is kept out of these families
        s.pop('top truncation', None)
    return f, t, ftype


def simple_models(rng, ftype, thick):
    kmin, kmax = wg.range_keys(ftype)
    half = thick / 2 if ftype == 'fault' else thick
    tm = rng.choice([
        {'model': 'uniform', 'temperature': wg.num(rng, 300, 1500)},
        {'model': 'adiabatic'},
        {'model': 'linear', kmax: wg.R(half), ('center temperature' if ftype == 'fault' else 'top temperature'): wg.num(rng, 300, 800),
         ('side temperature' if ftype == 'fault' else 'bottom temperature'): wg.num(rng, 1000, 1800)}])
    if rng.random() < 0.4:
        tm['operation'] = rng.choice(['replace', 'add', 'subtract'])
    cm = {'model': 'uniform', 'compositions': [0, 1], 'fractions': [wg.num(rng, 0.1, 1.0), wg.num(rng, 0.1, 1.0)]}
    gm = {'model': 'uniform', 'compositions': [0], 'grain sizes': [wg.num(rng, 0.05, 0.9)]}
    if rng.random() < 0.5:
        gm['rotation matrices'] = [wg.rnd(wg.rot_matrix(rng))]
    else:
        gm['Euler angles z-x-z'] = [[wg.R(rng.uniform(0, 360)), wg.R(rng.uniform(0, 180)), wg.R(rng.uniform(0, 360))]]
    vm = {'model': 'uniform raw', 'velocity': [wg.num(rng, -0.1, 0.1), wg.num(rng, -0.1, 0.1), wg.num(rng, -0.1, 0.1)]}
    return {'temperature models': [tm], 'composition models': [cm], 'grains models': [gm], 'velocity models': [vm]}


def section_index(ctx, trench):
    """chord based estimate of (section, fraction) of the foot of a point: used only to choose points; the check itself
    uses the library's own closest point kernel (bez_close)"""
    return None


def family_equivalence(rng, fid):
    sph = rng.random() < 0.3
    ctx = wg.gen_ctx(rng, sph, exotic=False)
    n = rng.randint(2, 6)
    f, t, ftype = base_feature(rng, ctx, n)
    models = simple_models(rng, ftype, t['thickness'])
    doc0 = {}
    wg.gen_globals(rng, ctx, doc0, exotic=False, force_surface=False)
    variants = {}
    # 1. feature level
    v1 = copy.deepcopy(f)
    v1.update(copy.deepcopy(models))
    variants['feature-level'] = v1
    # 2. copied into every segment
    v2 = copy.deepcopy(f)
    for s in v2['segments']:
        s.update(copy.deepcopy(models))
    variants['every-segment'] = v2
    # 3. a sections entry for every coordinate repeating the default segment list (models at feature level)
    v3 = copy.deepcopy(v1)
    v3['sections'] = [{'coordinate': k, 'segments': copy.deepcopy(f['segments'])} for k in range(n)]
    variants['section-per-coordinate'] = v3
    # 4. mixed: feature level temperature, section level composition for some coordinates, segment level for one segment
    v4 = copy.deepcopy(f)
    v4.update(copy.deepcopy(models))
    secs = []
    for k in rng.sample(range(n), rng.randint(1, n)):
        sec = {'coordinate': k, 'segments': copy.deepcopy(f['segments'])}
        r = rng.random()
        if r < 0.4:
            for kind in rng.sample(KINDS, rng.randint(1, 3)):
                sec[kind] = copy.deepcopy(models[kind])
        elif r < 0.7:
            kind_a, kind_b = rng.sample(KINDS, 2)
            sec[kind_a] = copy.deepcopy(models[kind_a])
            sec['segments'][rng.randrange(len(sec['segments']))][kind_b] = copy.deepcopy(models[kind_b])
        secs.append(sec)
    v4['sections'] = secs
    seg = rng.choice(v4['segments'])
    kind = rng.choice(KINDS)
    seg[kind] = copy.deepcopy(models[kind])
    variants['mixed'] = v4
    # 6. one kind of model only at section level (all coordinates), the others at feature level: each kind must be inherited by itself
    v6 = copy.deepcopy(f)
    lone = rng.choice(KINDS)
    for kind in KINDS:
        if kind != lone:
            v6[kind] = copy.deepcopy(models[kind])
    v6['sections'] = [{'coordinate': k, 'segments': copy.deepcopy(f['segments']), lone: copy.deepcopy(models[lone])} for k in range(n)]
    variants['one-kind-at-section-level:' + lone.split(' ')[0]] = v6
    # 5. models only in sections for every coordinate (nothing at feature level), segments inherit from the section
    v5 = copy.deepcopy(f)
    v5['sections'] = [dict({'coordinate': k, 'segments': copy.deepcopy(f['segments'])}, **copy.deepcopy(models)) for k in range(n)]
    variants['section-level-only'] = v5
    files = {}
    c = core.Case(fid)
    names = list(variants)
    for i, name in enumerate(names):
        d = dict(doc0)
        d['features'] = [variants[name]]
        fn = '%s_%d.wb' % (fid, i)
        files[fn] = wg.dumps(d)
        world(c, i + 1, core.workfile(PID, fn))
    c.files = files
    tt = dict(t, trench=[tuple(p) for p in f['coordinates']], d0=f.get('min depth', 0.0), length=sum(s['length'] for s in f['segments']), angle0=f['segments'][0]['angle'][0], thickness=f['segments'][0]['thickness'][0])
    pts = [wg.point_in_feature(rng, ctx, tt) for _ in range(80)]
    plan = []
    for (sx, sy, d) in pts:
        if ctx.sph:
            sx = ((sx + 180.0) % 360.0) - 180.0
        plan.append(((sx, sy, d), [q3(c, i + 1, ctx, sx, sy, d, PROPS) for i in range(len(names))]))
    inherits = True
    return c, {'kind': 'equivalence', 'names': names, 'plan': plan, 'fid': fid, 'variants': variants}


def distinct_model(rng, ftype, kind, thick):
    """a model of the given kind with its own random values (so that using the wrong level's model changes the answer)"""
    if kind == 'temperature models':
        return {'model': 'uniform', 'temperature': wg.num(rng, 300, 1700)}
    if kind == 'composition models':
        c = rng.choice([[0], [1], [0, 1]])
        return {'model': 'uniform', 'compositions': c, 'fractions': [wg.num(rng, 0.1, 1.0) for _ in c]}
    if kind == 'grains models':
        return {'model': 'uniform', 'compositions': [0], 'grain sizes': [wg.num(rng, 0.05, 0.9)], 'rotation matrices': [wg.rnd(wg.rot_matrix(rng))]}
    return {'model': 'uniform raw', 'velocity': [wg.num(rng, -0.1, 0.1) for _ in range(3)]}


def family_resolution(rng, fid):
    """different models at feature, section and segment level; the second file spells out, for every coordinate and segment, the models
    the inheritance rule selects (segment, else section, else feature) and has nothing at feature or section level"""
    sph = rng.random() < 0.3
    ctx = wg.gen_ctx(rng, sph, exotic=False)
    n = rng.randint(2, 5)
    f, t, ftype = base_feature(rng, ctx, n)
    thick = t['thickness']
    doc0 = {}
    wg.gen_globals(rng, ctx, doc0, exotic=False, force_surface=False)
    nseg = len(f['segments'])
    A = copy.deepcopy(f)
    F = {}
    for kind in KINDS:
        if rng.random() < 0.6:
            F[kind] = [distinct_model(rng, ftype, kind, thick)]
            A[kind] = copy.deepcopy(F[kind])
    for s in A['segments']:
        for kind in KINDS:
            if rng.random() < 0.25:
                s[kind] = [distinct_model(rng, ftype, kind, thick)]
    secs = {}
    for k in rng.sample(range(n), rng.randint(1, n)):
        sec = {'coordinate': k, 'segments': copy.deepcopy(f['segments'])}
        for kind in KINDS:
            if rng.random() < 0.45:
                sec[kind] = [distinct_model(rng, ftype, kind, thick)]
        for s in sec['segments']:
            for kind in KINDS:
                if rng.random() < 0.3:
                    s[kind] = [distinct_model(rng, ftype, kind, thick)]
        secs[k] = sec
    A['sections'] = [secs[k] for k in sorted(secs)]
    B = copy.deepcopy(f)
    bsecs = []
    for k in range(n):
        src = secs.get(k)
        segs = copy.deepcopy(src['segments'] if src else A['segments'])
        for s in segs:
            for kind in KINDS:
                if kind in s:
                    continue
                if src and kind in src:
                    s[kind] = copy.deepcopy(src[kind])
                elif kind in F:
                    s[kind] = copy.deepcopy(F[kind])
        bsecs.append({'coordinate': k, 'segments': segs})
    B['sections'] = bsecs
    variants = {'as-written': A, 'resolved': B}
    c = core.Case(fid)
    files = {}
    names = list(variants)
    for i, name in enumerate(names):
        d = dict(doc0)
        d['features'] = [variants[name]]
        fn = '%s_%d.wb' % (fid, i)
        files[fn] = wg.dumps(d)
        world(c, i + 1, core.workfile(PID, fn))
    c.files = files
    tt = dict(t, trench=[tuple(p) for p in f['coordinates']], d0=f.get('min depth', 0.0), length=sum(s['length'] for s in f['segments']), angle0=f['segments'][0]['angle'][0], thickness=f['segments'][0]['thickness'][0])
    plan = []
    for (sx, sy, d) in [wg.point_in_feature(rng, ctx, tt) for _ in range(80)]:
        if ctx.sph:
            sx = ((sx + 180.0) % 360.0) - 180.0
        plan.append(((sx, sy, d), [q3(c, i + 1, ctx, sx, sy, d, PROPS) for i in range(len(names))]))
    return c, {'kind': 'equivalence', 'names': names, 'plan': plan, 'fid': fid, 'variants': variants, 'ref_name': 'as-written'}


def family_geometry(rng, fid):
    """a planar slab/fault on a collinear cartesian trench: every section has the same lengths and the same dip (so the plane is one
    plane) but its own thickness pair and top truncation pair; membership at points placed a few per cent inside / outside the
    interpolated bounds, with the along-strike fraction taken from the library's own closest-point kernel"""
    ctx = wg.gen_ctx(rng, False, exotic=False)
    n = rng.randint(2, 5)
    f, t, ftype = base_feature(rng, ctx, n, collinear=True)
    fault = ftype == 'fault'
    doc0 = {}
    wg.gen_globals(rng, ctx, doc0, exotic=False, force_surface=False)
    nseg = rng.randint(1, 2)
    ang = wg.R(rng.uniform(50, 130) if fault else rng.uniform(25, 75))
    lengths = [wg.num(rng, 1e5, 3e5) for _ in range(nseg)]
    th0 = wg.num(rng, 4e4, 1.2e5)
    f.pop('max depth', None)

    def table():
        rows = []
        for s_ in range(nseg):
            t0, t1 = wg.R(th0 * rng.uniform(0.5, 1.5)), wg.R(th0 * rng.uniform(0.5, 1.5))
            c0, c1 = (0.0, 0.0) if fault else (wg.R(th0 * rng.uniform(-0.3, 0.3)), wg.R(th0 * rng.uniform(-0.3, 0.3)))
            rows.append((t0, t1, c0, c1))
        return rows

    vary_lengths = rng.random() < 0.5
    sec_lengths = []
    for k in range(n):
        ls = [wg.R(L * rng.uniform(0.5, 1.5)) if vary_lengths else L for L in lengths]
        if vary_lengths and nseg == 2 and rng.random() < 0.3:
            ls[rng.randrange(2)] = 0.0          # a segment that is absent at this coordinate and grows towards the neighbours
        sec_lengths.append(ls)

    def segments(rows, ls=None):
        out = []
        for L, (t0, t1, c0, c1) in zip(ls or lengths, rows):
            sg = {'length': L, 'thickness': [t0, t1], 'angle': [ang]}
            if not fault:
                sg['top truncation'] = [c0, c1]
            out.append(sg)
        return out
    tables = [table() for _ in range(n)]
    f['segments'] = segments(tables[0], sec_lengths[0])
    f['sections'] = [{'coordinate': k, 'segments': segments(tables[k], sec_lengths[k])} for k in range(n)]
    f['composition models'] = [{'model': 'uniform', 'compositions': [0], 'fractions': [0.75]}]
    d = dict(doc0)
    d['features'] = [f]
    fn = '%s_0.wb' % fid
    c = core.Case(fid, files={fn: wg.dumps(d)})
    world(c, 1, core.workfile(PID, fn))
    flat = []
    for p in f['coordinates']:
        flat += [core.hx(p[0]), core.hx(p[1])]
    c.add('bez_new', 1, 'c', *flat)
    tr = f['coordinates']
    ex, ey = tr[-1][0] - tr[0][0], tr[-1][1] - tr[0][1]
    Ln = math.hypot(ex, ey)
    nx, ny = -ey / Ln, ex / Ln
    if (f['dip point'][0] - tr[0][0]) * nx + (f['dip point'][1] - tr[0][1]) * ny < 0:
        nx, ny = -nx, -ny
    a = math.radians(ang)
    d0 = f.get('min depth', 0.0)
    plan = []
    for _ in range(90):
        j = rng.randrange(n - 1)
        fr = rng.uniform(0.03, 0.97)
        px, py = tr[j][0] + fr * (tr[j + 1][0] - tr[j][0]), tr[j][1] + fr * (tr[j + 1][1] - tr[j][1])
        lens_here = [sec_lengths[j][q] + fr * (sec_lengths[j + 1][q] - sec_lengths[j][q]) for q in range(nseg)]
        sgi = rng.randrange(nseg)
        u = rng.uniform(0.05, 0.95)
        if lens_here[sgi] < 1e3:
            continue
        s_al = sum(lens_here[:sgi]) + u * lens_here[sgi]
        beyond = vary_lengths and rng.random() < 0.25
        if beyond:
            # around the down-dip end: the interpolated total length decides
            sgi, u = nseg - 1, 1.0
            s_al = sum(lens_here) * (1.0 + rng.choice([-1, 1]) * rng.uniform(0.01, 0.08))
        # rough bounds with the arc fraction, to aim the point; the judgement uses the library's fraction
        def lerp2(col, frac):
            A = tables[j][sgi][col] + u * (tables[j][sgi][col + 1] - tables[j][sgi][col])
            B = tables[j + 1][sgi][col] + u * (tables[j + 1][sgi][col + 1] - tables[j + 1][sgi][col])
            return A + frac * (B - A)
        th, tc = lerp2(0, fr), lerp2(2, fr)
        span = (th - tc) if not fault else th
        bound = rng.choice(['thickness', 'thickness', 'truncation']) if not fault else 'thickness'
        eps = rng.choice([-1, 1]) * rng.uniform(0.005, 0.08) * span
        if beyond:
            bound = 'length'
            nn = (rng.uniform(-0.3, 0.3) * th) if fault else (tc + rng.uniform(0.3, 0.7) * (th - tc))
        elif fault:
            nn = rng.choice([-1, 1]) * (0.5 * th + eps)
        else:
            nn = (th if bound == 'thickness' else tc) + eps
        hh = s_al * math.cos(a) - nn * math.sin(a)
        vv = s_al * math.sin(a) + nn * math.cos(a)
        if vv < 1.0:
            continue        # above the feature's min depth: outside whatever the thickness
        sx, sy, dep = px + nx * hh, py + ny * hh, d0 + vv
        ib = c.add('bez_close', 1, 'c', core.hx(sx), core.hx(sy))
        plan.append({'j': j, 'sgi': sgi, 'u': u, 'nn': nn, 'bound': bound, 's_al': s_al, 'point': (sx, sy, dep), 'ib': ib, 'iq': q3(c, 1, ctx, sx, sy, dep, PROPS)})
    return c, {'kind': 'geometry', 'plan': plan, 'fid': fid, 'tables': tables, 'fault': fault, 'feature': f, 'n': n, 'sec_lengths': sec_lengths, 'vary_lengths': vary_lengths}


def check_geometry(V, c, t):
    if c.crash:
        V.crash(c, t['fid'])
        return
    if not ok(c.results[0]) or not ok(c.results[1]):
        return
    tables, fault = t['tables'], t['fault']
    for p in t['plan']:
        rb, rq = c.results[p['ib']], c.results[p['iq']]
        if not ok(rb) or not ok(rq):
            continue
        b = rb[1].split(' ')
        if b[0] in ('inf', '-inf', 'nan'):
            continue
        sec, frac = int(b[3]), core.fh(b[1])
        if sec != p['j'] or not (0.0 <= frac <= 1.0):
            continue
        sgi, u = p['sgi'], p['u']
        if t['vary_lengths']:
            # lengths interpolated along strike decide which segment holds the point and where in it
            SL = t['sec_lengths']
            lens = [SL[sec][q] + frac * (SL[sec + 1][q] - SL[sec][q]) for q in range(len(SL[sec]))]
            s_al = p['s_al']
            total = sum(lens)
            V.count()
            inside = vals(rq)[3] >= 0
            detail = {'family': t['fid'], 'point': p['point'], 'section': sec, 'fraction': frac, 'distance_along_the_plane': s_al, 'distance_below_the_plane': p['nn'],
                      'lengths_of_the_two_sections': (SL[sec], SL[sec + 1]), 'interpolated_lengths': lens, 'library_inside': inside, 'feature': t['feature']}
            if abs(s_al - total) < 2e-3 * total:
                continue
            if s_al > total:
                if inside:
                    V.violation('interpolation:length-differs-from-the-linear-combination:point-beyond-the-interpolated-length-is-inside', detail)
                V.nontrivial((t['fid'], p['point']))
                continue
            acc = 0.0
            sgi = None
            for q, Lq in enumerate(lens):
                if s_al < acc + Lq:
                    sgi = q
                    break
                acc += Lq
            if sgi is None or lens[sgi] < 1.0:
                continue
            u = (s_al - acc) / lens[sgi]
            if min(u, 1 - u) * lens[sgi] < 2e-3 * total:
                continue         # at a junction between segments the bounds jump

        def at(section, col):
            return tables[section][sgi][col] + u * (tables[section][sgi][col + 1] - tables[section][sgi][col])
        V.count()
        inside = vals(rq)[3] >= 0
        # the bounds any convex combination of the two adjacent sections can give at this place along the dip
        th_lo, th_hi = sorted((at(sec, 0), at(sec + 1, 0)))
        tc_lo, tc_hi = sorted((at(sec, 2), at(sec + 1, 2)))
        th_f = at(sec, 0) + frac * (at(sec + 1, 0) - at(sec, 0))
        tc_f = at(sec, 2) + frac * (at(sec + 1, 2) - at(sec, 2))
        nn = p['nn']
        slack = 1e-6 * th_hi
        detail = {'family': t['fid'], 'point': p['point'], 'section': sec, 'fraction': frac, 'segment': sgi, 'fraction_along_segment': u, 'distance_below_the_plane': nn,
                  'thickness_of_the_two_sections_here': (at(sec, 0), at(sec + 1, 0)), 'truncation_of_the_two_sections_here': (at(sec, 2), at(sec + 1, 2)),
                  'interpolated': (th_f, tc_f), 'library_inside': inside, 'feature': t['feature']}
        if fault:
            certainly_in = abs(nn) < 0.5 * th_lo - slack
            certainly_out = abs(nn) > 0.5 * th_hi + slack
            exp_f = abs(nn) <= 0.5 * th_f
            margin_f = abs(abs(nn) - 0.5 * th_f)
        else:
            certainly_in = tc_hi + slack < nn < th_lo - slack
            certainly_out = nn < tc_lo - slack or nn > th_hi + slack
            exp_f = tc_f <= nn <= th_f
            margin_f = min(abs(nn - tc_f), abs(nn - th_f))
        if t['vary_lengths']:
            if margin_f > 1e-3 * th_hi and exp_f != inside:
                V.violation('interpolation:geometry-differs-from-the-linear-combination-at-the-trench-fraction:variable-lengths', dict(detail, interpolated_lengths=lens))
        elif certainly_in and not inside:
            V.violation('interpolation:geometry-not-a-convex-combination:point-inside-both-sections-bounds-is-outside', detail)
        elif certainly_out and inside:
            V.violation('interpolation:geometry-not-a-convex-combination:point-outside-both-sections-bounds-is-inside', detail)
        elif margin_f > 1e-4 * th_hi and exp_f != inside:
            # the linear combination at the library's own along-strike fraction
            V.violation('interpolation:geometry-differs-from-the-linear-combination-at-the-trench-fraction:%s' % p['bound'], detail)
        V.nontrivial((t['fid'], p['point']))
    V.sample({'family': t['fid'], 'kind': 'geometry', 'tables': tables}, limit=2)


def family_locality(rng, fid):
    sph = rng.random() < 0.3
    ctx = wg.gen_ctx(rng, sph, exotic=False)
    n = rng.randint(3, 6)
    collinear = rng.random() < 0.4
    f, t, ftype = base_feature(rng, ctx, n, collinear)
    doc0 = {}
    wg.gen_globals(rng, ctx, doc0, exotic=False, force_surface=False)
    thick = t['thickness']
    # every coordinate gets its own section with a uniform temperature and composition (convexity), W1 additionally changes coordinate k
    Ts = [wg.num(rng, 400, 1600) for _ in range(n)]
    Cs = [wg.num(rng, 0.1, 1.0) for _ in range(n)]
    Vs = [[wg.num(rng, -0.1, 0.1) for _ in range(3)] for _ in range(n)]
    Gs = [wg.num(rng, 0.05, 0.9) for _ in range(n)]
    Rm = wg.rnd(wg.rot_matrix(rng))

    # model LISTS: behind the model that sets the value, models that leave it alone (a range that is never reached, a composition model
    # for another composition with 'replace defined only'): each model of a section must continue from the value the previous model of
    # the SAME section produced; the expected values stay Ts / Cs / Vs
    lists = rng.random() < 0.5
    kmin, kmax = wg.range_keys(ftype)

    def section(k, mod=None):
        segs = copy.deepcopy(f['segments'])
        sec = {'coordinate': k, 'segments': segs,
               'temperature models': [{'model': 'uniform', 'temperature': Ts[k]}],
               'composition models': [{'model': 'uniform', 'compositions': [0], 'fractions': [Cs[k]]}],
               'velocity models': [{'model': 'uniform raw', 'velocity': list(Vs[k])}],
               'grains models': [{'model': 'uniform', 'compositions': [0], 'grain sizes': [Gs[k]], 'rotation matrices': [Rm]}]}
        if lists:
            sec['temperature models'].append({'model': 'uniform', 'temperature': 999.0, kmin: wg.R(10.0 * thick), kmax: wg.R(11.0 * thick)})
            sec['composition models'].append({'model': 'uniform', 'compositions': [1], 'fractions': [wg.R(0.5 + 0.01 * k)], 'operation': 'replace defined only'})
            if k % 2 == 0:
                sec['composition models'].append({'model': 'uniform', 'compositions': [0], 'fractions': [0.123], kmin: wg.R(10.0 * thick), kmax: wg.R(11.0 * thick)})
            sec['velocity models'].append({'model': 'uniform raw', 'velocity': [9.0, 9.0, 9.0], kmin: wg.R(10.0 * thick), kmax: wg.R(11.0 * thick)})
        if mod == 'thickness':
            for s in segs:
                s['thickness'] = [wg.R(x * 0.7) for x in s['thickness']]
        elif mod == 'length':
            for s in segs:
                s['length'] = wg.R(s['length'] * 0.75)
        elif mod == 'truncation' and ftype == 'subducting plate':
            for s in segs:
                s['top truncation'] = [wg.R(0.2 * thick)]
        elif mod == 'temperature':
            sec['temperature models'] = [{'model': 'uniform', 'temperature': wg.R(Ts[k] + 333.0)}]
        elif mod == 'composition':
            sec['composition models'] = [{'model': 'uniform', 'compositions': [0], 'fractions': [wg.R(Cs[k] * 0.5)]}]
        elif mod == 'velocity':
            sec['velocity models'] = [{'model': 'uniform raw', 'velocity': [wg.R(v + 0.05) for v in Vs[k]]}]
        elif mod == 'grains':
            sec['grains models'] = [{'model': 'uniform', 'compositions': [0], 'grain sizes': [wg.R(Gs[k] * 0.5)], 'rotation matrices': [Rm]}]
        return sec
    k = rng.randrange(n)
    mod = rng.choice(['thickness', 'length', 'truncation', 'temperature', 'composition', 'velocity', 'grains'])
    w0 = copy.deepcopy(f)
    w0['sections'] = [section(j) for j in range(n)]
    w1 = copy.deepcopy(f)
    w1['sections'] = [section(j, mod if j == k else None) for j in range(n)]
    c = core.Case(fid)
    files = {}
    for i, feat in enumerate((w0, w1)):
        d = dict(doc0)
        d['features'] = [feat]
        fn = '%s_%d.wb' % (fid, i)
        files[fn] = wg.dumps(d)
        world(c, i + 1, core.workfile(PID, fn))
    c.files = files
    flat = []
    d2r = PI / 180.0 if sph else 1.0
    for p in f['coordinates']:
        flat += [core.hx(p[0] * d2r), core.hx(p[1] * d2r)]
    c.add('bez_new', 1, 's' if sph else 'c', *flat)
    tt = dict(t, trench=[tuple(p) for p in f['coordinates']], d0=f.get('min depth', 0.0), length=sum(s['length'] for s in f['segments']), angle0=f['segments'][0]['angle'][0], thickness=thick)
    plan = []
    pts = [wg.point_in_feature(rng, ctx, tt) for _ in range(70)]
    # points on the normal through interior coordinates of a collinear trench
    normal_pts = []
    if collinear and not sph:
        tr = f['coordinates']
        ex, ey = tr[-1][0] - tr[0][0], tr[-1][1] - tr[0][1]
        Ln = math.hypot(ex, ey)
        nx, ny = -ey / Ln, ex / Ln
        if (f['dip point'][0] - tr[0][0]) * nx + (f['dip point'][1] - tr[0][1]) * ny < 0:
            nx, ny = -nx, -ny
        th = math.radians(tt['angle0'])
        for j in range(1, n - 1):
            for _ in range(4):
                s = rng.uniform(0.05, 0.6) * tt['length']
                nn = (rng.uniform(-0.3, 0.3) if ftype == 'fault' else rng.uniform(0.2, 0.8)) * thick
                h, v = s * math.cos(th) - nn * math.sin(th), s * math.sin(th) + nn * math.cos(th)
                normal_pts.append((j, (tr[j][0] + nx * h, tr[j][1] + ny * h, tt['d0'] + v)))
    for (sx, sy, d) in pts:
        if ctx.sph:
            sx = ((sx + 180.0) % 360.0) - 180.0
        ib = c.add('bez_close', 1, 's' if sph else 'c', core.hx(sx * d2r), core.hx(sy * d2r))
        plan.append(('generic', (sx, sy, d), ib, q3(c, 1, ctx, sx, sy, d, PROPS), q3(c, 2, ctx, sx, sy, d, PROPS), None))
    for (j, (sx, sy, d)) in normal_pts:
        ib = c.add('bez_close', 1, 'c', core.hx(sx), core.hx(sy))
        plan.append(('normal', (sx, sy, d), ib, q3(c, 1, ctx, sx, sy, d, PROPS), q3(c, 2, ctx, sx, sy, d, PROPS), j))
    return c, {'kind': 'locality', 'plan': plan, 'fid': fid, 'k': k, 'mod': mod, 'Ts': Ts, 'Cs': Cs, 'Vs': Vs, 'Gs': Gs, 'n': n, 'features': (w0, w1), 'collinear': collinear, 'ftype': ftype, 'lists': lists}


def check_equivalence(V, c, t):
    if c.crash:
        V.crash(c, t['fid'])
        return
    names = t['names']
    oks = [ok(c.results[i]) for i in range(len(names))]
    if not all(oks):
        if any(oks):
            V.violation('equivalent-files:construction-outcome-differs', {'family': t['fid'], 'outcomes': {n: c.results[i] for i, n in enumerate(names)}, 'variants': t['variants']})
        return
    for (p, idxs) in t['plan']:
        rs = [c.results[i] for i in idxs]
        if any(r[0] == 'missing' for r in rs):
            continue
        V.count()
        ref = rs[0]
        for name, r in zip(names[1:], rs[1:]):
            same = r[0] == ref[0] and (not ok(r) or core.same_bits(vals(r), vals(ref)))
            if not same:
                V.violation('inheritance:equivalent-files-answer-differently:%s' % name, {'family': t['fid'], 'point': p, names[0]: ref, name: r,
                                                                                          'reference_file': t['variants'][names[0]], 'variant_file': t['variants'][name]})
        if ok(ref) and vals(ref)[3] >= 0:
            V.nontrivial((t['fid'], p))
    V.sample({'family': t['fid'], 'kind': 'equivalence', 'variants': names, 'point': t['plan'][0][0], 'answer': c.results[t['plan'][0][1][0]][1][:60]}, limit=3)


def check_locality(V, c, t):
    if c.crash:
        V.crash(c, t['fid'])
        return
    if not ok(c.results[0]) or not ok(c.results[1]) or not ok(c.results[2]):
        if ok(c.results[0]) != ok(c.results[1]):
            V.violation('locality:construction-outcome-differs', {'family': t['fid'], 'r0': c.results[0], 'r1': c.results[1], 'mod': t['mod']})
        return
    k, n, Ts, Cs, Vs, Gs = t['k'], t['n'], t['Ts'], t['Cs'], t['Vs'], t['Gs']
    for (kind, p, ib, i0, i1, j) in t['plan']:
        rb, r0, r1 = c.results[ib], c.results[i0], c.results[i1]
        if not ok(rb) or r0[0] == 'missing' or r1[0] == 'missing':
            continue
        b = rb[1].split(' ')
        if b[0] in ('inf', '-inf', 'nan'):
            continue
        sec, frac = int(b[3]), core.fh(b[1])
        V.count()
        detail = {'family': t['fid'], 'point': p, 'section': sec, 'fraction': frac, 'override': (k, t['mod']), 'W0': r0, 'W1': r1, 'Ts': Ts, 'Cs': Cs}
        # ---- locality: the override of coordinate k matters only between coordinates k-1 and k+1, i.e. in sections k-1 and k
        far = (sec + 1 < k and not (sec + 1 == k - 0 and False)) or (sec > k)
        if sec + 1 == k - 1 + 1:
            far = False
        near_boundary = (sec == k - 2 and frac > 0.8) or (sec == k + 1 and frac < 0.2)
        if (sec < k - 1 or sec > k) and not near_boundary:
            same = r0[0] == r1[0] and (not ok(r0) or core.same_bits(vals(r0), vals(r1)))
            if not same:
                V.violation('locality:override-changes-answers-outside-its-neighbour-sections:%s' % t['mod'], detail)
            V.nontrivial((t['fid'], p, 'far'))
        # ---- convexity in W0: temperature/composition between the values of the two adjacent sections
        if ok(r0):
            v = vals(r0)
            if v[3] >= 0 and sec + 1 < n:
                lo, hi = min(Ts[sec], Ts[sec + 1]), max(Ts[sec], Ts[sec + 1])
                if not (lo - 1e-7 * hi <= v[0] <= hi + 1e-7 * hi):
                    V.violation('interpolation:temperature-not-between-the-adjacent-sections', dict(detail, T=v[0], bounds=(lo, hi)))
                lo, hi = min(Cs[sec], Cs[sec + 1]), max(Cs[sec], Cs[sec + 1])
                # the solver accepts section fractions in [-1e-8, 1+1e-8]: extrapolation by that much is rounding, not a foreign value
                if not (lo - 1e-7 <= v[1] <= hi + 1e-7):
                    V.violation('interpolation:composition-not-between-the-adjacent-sections', dict(detail, C=v[1], bounds=(lo, hi)))
                # grain sizes (2 grains of composition 0: entries 4,5) and the velocity (entries 24..26) are interpolated like the rest
                lo, hi = min(Gs[sec], Gs[sec + 1]), max(Gs[sec], Gs[sec + 1])
                if not all(lo - 1e-7 <= g <= hi + 1e-7 for g in v[4:6]):
                    V.violation('interpolation:grain-size-not-between-the-adjacent-sections', dict(detail, sizes=v[4:6], bounds=(lo, hi)))
                for a in range(3):
                    lo, hi = min(Vs[sec][a], Vs[sec + 1][a]), max(Vs[sec][a], Vs[sec + 1][a])
                    if not (lo - 1e-7 <= v[24 + a] <= hi + 1e-7):
                        V.violation('interpolation:velocity-not-between-the-adjacent-sections', dict(detail, component=a, velocity=v[24:27], bounds=(lo, hi)))
                if t['collinear'] and 0.0 <= frac <= 1.0:
                    # on a collinear trench the along-strike fraction of the kernel is the weight of the linear combination
                    for name, got, a0, a1, tol in (('temperature', v[0], Ts[sec], Ts[sec + 1], 1e-6 * max(Ts)), ('composition', v[1], Cs[sec], Cs[sec + 1], 1e-6)):
                        want = a0 + frac * (a1 - a0)
                        if abs(got - want) > tol:
                            V.violation('interpolation:%s-differs-from-the-linear-combination-at-the-trench-fraction' % name, dict(detail, got=got, expected=want, lists=t.get('lists')))
                if kind == 'normal':
                    if abs(v[1] - Cs[j]) > 1e-7:
                        V.violation('interpolation:section-composition-not-attained-at-its-coordinate', dict(detail, C=v[1], expected=Cs[j], coordinate=j))
                    if max(abs(v[24 + a] - Vs[j][a]) for a in range(3)) > 1e-7:
                        V.violation('interpolation:section-velocity-not-attained-at-its-coordinate', dict(detail, velocity=v[24:27], expected=Vs[j], coordinate=j))
                    if abs(v[0] - Ts[j]) > 1e-6 + 1e-7 * Ts[j]:
                        V.violation('interpolation:section-value-not-attained-at-its-coordinate', dict(detail, T=v[0], expected=Ts[j], coordinate=j))
                    V.nontrivial((t['fid'], p, 'normal'))
    V.sample({'family': t['fid'], 'kind': 'locality', 'override': (k, t['mod']), 'coordinates': t['features'][0]['coordinates']}, limit=3)


def main(tier, seed, replay):
    core.build('asan')
    rng = random.Random(seed * 700001 + 10)
    V = core.Verdict(PID, tier, seed)
    V.coverage['rule'] = ('(equivalence) families of six files that place the same temperature, composition, grains and velocity models at feature level / in every segment / with a sections entry per coordinate / mixed / in sections only / one kind at section level only: bit-identical answers (temperature, compositions, tag, grains, velocity); '
                          '(resolution) a file with different models at feature, section and segment level against the file that spells out for every coordinate and segment what the rule segment > section > feature selects: bit-identical; (locality) a world with one section per coordinate and the same world with coordinate k overridden (thickness, length, top truncation, temperature, composition, velocity, grains): bit-identical answers at points '
                          'whose trench foot (library kernel bez_close) lies outside sections k-1 and k with 20 % margin; (convexity) uniform section temperatures/compositions/grain sizes/velocities: value between those of the two adjacent sections, '
                          'and equal to the section value on the normal through an interior coordinate of a collinear trench; non-trivial = points inside the feature (equivalence), far points and normal points (locality)')
    n_eq, n_loc = (60, 80) if tier == 'quick' else (1800, 2400)
    jobs = []
    for i in range(n_eq):
        jobs.append(family_equivalence(random.Random(rng.getrandbits(48)), 'e%d' % i))
    for i in range(n_eq):
        jobs.append(family_resolution(random.Random(rng.getrandbits(48)), 'r%d' % i))
    for i in range(n_loc):
        jobs.append(family_locality(random.Random(rng.getrandbits(48)), 'l%d' % i))
    for i in range(n_eq):
        jobs.append(family_geometry(random.Random(rng.getrandbits(48)), 'g%d' % i))
    core.run_cases('asan', [j[0] for j in jobs], PID)
    for (c, t) in jobs:
        if t['kind'] == 'equivalence':
            check_equivalence(V, c, t)
        elif t['kind'] == 'geometry':
            check_geometry(V, c, t)
        else:
            check_locality(V, c, t)
    return V.finish(floor_nontrivial=1500 if tier == 'quick' else 45000, floor_evaluations=5000)
