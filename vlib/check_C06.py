"""C06 - slab and fault geometry equals the elementary planar construction for straight trenches (DESIGN.md C06)."""
import math
import random

from . import core, worldgen as wg, slabref
from .common import world, ok, vals, q3xyz

PID = 'C06'
PI = math.pi
TOL_ABS = 1e-3
TOL_REL = 1e-10


def gen_geometry(rng, kind, sph):
    """-> (feature dict, truth)"""
    nseg = rng.randint(1, 4)
    segs = []
    table = []
    prof = []
    a0 = rng.uniform(8, 172)
    total = 0.0
    thick_scale = wg.num(rng, 3e4, 2e5)
    widen = rng.random() < 0.15
    t1_prev = None
    if widen:
        nseg = rng.randint(1, 2)
        a0 = rng.uniform(45, 135)
    for i in range(nseg):
        mode = rng.random()
        if mode < 0.45:
            a1 = a0
        else:
            a1 = max(3.0, min(177.0, a0 + rng.uniform(-60, 60)))
            if abs(a1 - a0) < 0.5:
                a1 = a0
        a0r, a1r = wg.R(a0), wg.R(a1)
        L = wg.num(rng, 5e4, 4e5)
        t0 = wg.R(thick_scale * rng.uniform(0.5, 1.0))
        t1 = t0 if rng.random() < 0.5 else wg.R(thick_scale * rng.uniform(0.5, 1.0))
        if widen:
            # a short body that thickens strongly down dip: its deep part lies beyond total length + (thickness at the top)
            L = wg.R(thick_scale * rng.uniform(0.2, 0.8))
            t0 = wg.R(thick_scale * rng.uniform(0.05, 0.3)) if i == 0 else t1_prev
            t1 = wg.R(thick_scale * rng.uniform(0.8, 1.5))
            t1_prev = t1
        s = {'length': L, 'thickness': [t0, t1] if (t0 != t1 or rng.random() < 0.5) else [t0], 'angle': [a0r, a1r] if (a0r != a1r or rng.random() < 0.5) else [a0r]}
        c0 = c1 = 0.0
        if kind == 'subducting plate' and rng.random() < 0.35:
            c0 = wg.R(thick_scale * rng.uniform(-0.4, 0.3))
            c1 = c0 if rng.random() < 0.5 else wg.R(thick_scale * rng.uniform(-0.4, 0.3))
            s['top truncation'] = [c0, c1] if (c0 != c1 or rng.random() < 0.5) else [c0]
        segs.append(s)
        table.append((t0, t1, c0, c1))
        prof.append((L, a0r, a1r))
        total += L
        a0 = a1r
        if rng.random() < 0.3:
            # a kink: the next segment starts with another dip (flattening kinks give points above the surface a perpendicular foot on
            # both neighbours, steepening kinks a wedge without any foot)
            a0 = max(3.0, min(177.0, a1r + rng.uniform(-45, 45)))
    d0 = 0.0 if rng.random() < 0.4 else wg.num(rng, 0, 2e5)
    d1 = wg.DBL_MAX if rng.random() < 0.6 else wg.R(d0 + wg.num(rng, 1e5, 8e5))
    f = {'model': kind, 'name': 'the plane', 'segments': segs}
    if d0 != 0.0 or rng.random() < 0.3:
        f['min depth'] = d0
    if d1 < 1e300:
        f['max depth'] = d1
    f['composition models'] = [{'model': 'uniform', 'compositions': [0]}]
    t = {'kind': kind, 'table': table, 'profile_spec': prof, 'total': total, 'd0': d0, 'd1': d1, 'sph': sph}
    if not sph:
        cx, cy = wg.num(rng, -2e6, 2e6), wg.num(rng, -2e6, 2e6)
        az = rng.uniform(0, 2 * PI) if rng.random() < 0.8 else rng.choice([0.0, PI / 2, PI / 4])
        Lt = wg.num(rng, 3e5, 2e6)
        p0 = (wg.R(cx - 0.5 * Lt * math.cos(az)), wg.R(cy - 0.5 * Lt * math.sin(az)))
        p1 = (wg.R(cx + 0.5 * Lt * math.cos(az)), wg.R(cy + 0.5 * Lt * math.sin(az)))
        side = rng.choice([-1, 1])
        ex, ey = p1[0] - p0[0], p1[1] - p0[1]
        Ln = math.hypot(ex, ey)
        nx, ny = -ey / Ln * side, ex / Ln * side       # unit normal towards the dip point side
        far = wg.num(rng, 1e5, 5e6)
        dip = [wg.R(0.5 * (p0[0] + p1[0]) + nx * far), wg.R(0.5 * (p0[1] + p1[1]) + ny * far)]
        f['coordinates'] = [list(p0), list(p1)]
        f['dip point'] = dip
        t.update(p0=p0, p1=p1, n=(nx, ny), e=(ex / Ln, ey / Ln), Lt=Ln)
    else:
        orient = rng.choice(['equator', 'meridian'])
        side = rng.choice([-1, 1])
        if orient == 'equator':
            lon0 = wg.R(rng.uniform(-170, 150) if rng.random() < 0.7 else rng.uniform(165, 175))
            lon1 = wg.R(lon0 + rng.uniform(5, 25))
            f['coordinates'] = [[lon0, 0.0], [lon1, 0.0]] if rng.random() < 0.5 else [[lon1, 0.0], [lon0, 0.0]]
            f['dip point'] = [wg.R(0.5 * (lon0 + lon1) + rng.uniform(-2, 2)), wg.R(side * rng.uniform(5, 40))]
            t.update(orient=orient, lon0=lon0, lon1=lon1, side=side)
        else:
            lon0 = wg.R(rng.uniform(-170, 170) if rng.random() < 0.6 else rng.choice([-1, 1]) * rng.uniform(176, 180))
            a = wg.R(rng.uniform(5, 20))
            f['coordinates'] = [[lon0, -a], [lon0, a]] if rng.random() < 0.5 else [[lon0, a], [lon0, -a]]
            dl = wg.R(lon0 + side * rng.uniform(5, 40))
            dl = max(-360.0, min(360.0, dl))
            f['dip point'] = [dl, wg.R(rng.uniform(-2, 2))]
            t.update(orient=orient, lon0=lon0, a=a, side=1 if dl > lon0 else -1)
    return f, t


def gen_points(rng, t, ctx, n, Hclass):
    """-> list of dict(q=(x,y,z,depth), h, v, foot_fraction)"""
    out = []
    prof = t['profile']
    reach_h = max(abs(g.h1) for g in prof) + 1.5e5
    reach_v = max(g.v1 for g in prof)
    for _ in range(n):
        # pick a target near the surface of the slab most of the time
        if rng.random() < 0.75:
            g = rng.choice(prof)
            u = rng.uniform(0, 1)
            if g.kappa == 0.0:
                bh, bv, a = g.h0 + u * (g.h1 - g.h0), g.v0 + u * (g.v1 - g.v0), g.a0
            else:
                a = g.a0 + u * (g.a1 - g.a0)
                bh, bv = g.ch + math.sin(a) / g.kappa, g.cv - math.cos(a) / g.kappa
            off = rng.uniform(-1.5, 2.5) * max(max(tt[0], tt[1]) for tt in t['table']) if rng.random() < 0.8 else rng.uniform(-1e3, 1e3)
            h = bh - math.sin(a) * off
            v = bv + math.cos(a) * off
        else:
            h = rng.uniform(-reach_h, reach_h)
            v = rng.uniform(-5e4, reach_v + 2e5)
        depth = t['d0'] + v
        if depth < 0:
            continue
        ff = rng.uniform(0.03, 0.97)
        if not t['sph']:
            H = Hclass(depth)
            fx = t['p0'][0] + ff * (t['p1'][0] - t['p0'][0])
            fy = t['p0'][1] + ff * (t['p1'][1] - t['p0'][1])
            x, y = fx + t['n'][0] * h, fy + t['n'][1] * h
            out.append({'q': (x, y, H - depth, depth), 'h': h, 'v': v, 'ff': ff, 'H': H})
        else:
            # spherical: the planar frame lives in the great circle plane through the foot perpendicular to the trench:
            # h = r sin(phi) towards the dip side, v = rho - r cos(phi), rho = R - min depth
            rho = ctx.R - t['d0']
            rr = math.hypot(h, rho - v)
            phi = math.atan2(h, rho - v)          # signed, positive towards the dip side
            # beyond ~9 degrees from the trench the closest-point solver of the trench curve is outside its working range
            # (C19 covers it up to a few hundred km, C13 beyond): not judged here
            if abs(phi) > math.radians(9) or rr < 1e5:
                continue
            depth = ctx.R - rr
            if depth < 0:
                continue
            if t['orient'] == 'equator':
                lon = t['lon0'] + ff * (t['lon1'] - t['lon0'])
                lat = math.degrees(phi) * t['side']
                sx, sy = lon, lat
            else:
                sx, sy = t['lon0'] + math.degrees(phi) * t['side'], 0.0
            sx = ((sx + 180.0) % 360.0) - 180.0
            x, y, z = ctx.point(sx, sy, depth)
            out.append({'q': (x, y, z, depth), 'h': h, 'v': v, 'ff': ff, 'phi': phi, 'r': rr, 'rho': rho})
    return out


def main(tier, seed, replay):
    core.build('asan')
    rng = random.Random(seed * 7368787 + 6)
    V = core.Verdict(PID, tier, seed)
    V.coverage['rule'] = ('single slab/fault worlds with a straight two-coordinate trench (any position, azimuth, length, dip side), 1-4 segments (straight and arcs, dips in (3,177) deg, thickness pairs, '
                          'top truncations), min depth >= 0; World::distance_to_plane and the tag compared with an independent planar construction; ambiguous reference points (junction wedges, ties, trench ends) skipped; '
                          'separate classes for cartesian worlds whose surface height is <= min depth and for spherical trenches (equator / meridian); non-trivial = points with |distance| < 2 x thickness and along within '
                          '[-0.1,1.1] x length')
    ngeo = 600 if tier == "quick" else 12000
    jobs = []
    for i in range(ngeo):
        wrng = random.Random(rng.getrandbits(48))
        kind = wrng.choice(['subducting plate', 'subducting plate', 'fault'])
        r = wrng.random()
        sph = r < 0.25
        f, t = gen_geometry(wrng, kind, sph)
        t['profile'] = slabref.build_profile(t['profile_spec'])
        if sph:
            ctx = wg.Ctx(True, 6371000.0 if wrng.random() < 0.7 else wg.num(wrng, 5e6, 7e6), None, 'starting point')
            hcls = 'spherical'
            Hclass = None
        else:
            d0 = t['d0']
            if r < 0.85:
                Hbase = wrng.choice([1.0e6, 2.9e6, 6371000.0]) if wrng.random() < 0.5 else wg.num(wrng, 1.0e6, 6.4e6)
                hcls = 'normal'
                Hclass = (lambda depth, Hb=Hbase: Hb)
            else:
                Hbase = wrng.choice([0.0, d0, d0 * 0.5, -1000.0])
                hcls = 'surface-height<=min-depth'
                Hclass = (lambda depth, Hb=Hbase: Hb)
            ctx = wg.Ctx(False, 6371000.0, Hbase)
        doc = {'version': '1.1', 'features': [f]}
        if sph:
            doc['coordinate system'] = {'model': 'spherical', 'depth method': 'starting point'}
            if ctx.R != 6371000.0:
                doc['coordinate system']['radius'] = ctx.R
        t['R'] = ctx.R
        pts = gen_points(wrng, t, ctx, 100, Hclass)
        fn = 'w%d.wb' % i
        c = core.Case('w%d' % i, files={fn: wg.dumps(doc)})
        world(c, 1, core.workfile(PID, fn))
        plan = []
        for p in pts:
            x, y, z, d = p['q']
            i1 = c.add('dist', 1, core.hx(x), core.hx(y), core.hx(z), core.hx(d), 'the plane')
            i2 = q3xyz(c, 1, x, y, z, d, [(4, 0, 0), (2, 0, 0)])
            plan.append((p, i1, i2))
        jobs.append((c, t, plan, fn, hcls, f))
    core.run_cases('asan', [j[0] for j in jobs], PID)
    skipped = 0
    for (c, t, plan, fn, hcls, f) in jobs:
        if c.crash:
            V.crash(c, fn)
        if not ok(c.results[0]):
            V.violation('world-rejected', {'world': fn, 'res': c.results[0], 'feature': f})
            continue
        kind = t['kind']
        for (p, i1, i2) in plan:
            r1, r2 = c.results[i1], c.results[i2]
            if r1[0] == 'missing' or r2[0] == 'missing':
                continue
            ref = slabref.distances(t['profile'], p['h'], p['v'])
            # beyond the centre of curvature of an arc the nearest point of the arc is not unique: such far points are not judged
            rmin = min([g.R for g in t['profile'] if g.kappa != 0.0] or [float('inf')])
            far = (ref['found'] and abs(ref['distance']) > 0.9 * rmin) or (not ref['found'] and rmin < float('inf'))
            if ref['ambiguous'] or abs(p['h']) < 1.0 or far:
                skipped += 1
                continue
            V.count()
            suffix = '' if hcls == 'normal' else ':' + hcls
            detail = {'world': fn, 'feature': f, 'query': p['q'], 'h': p['h'], 'v': p['v'], 'reference': ref, 'dist': r1, 'props': r2, 'class': hcls}
            if not ok(r1) or not ok(r2):
                V.violation('query-threw:%s%s' % (kind, suffix), detail)
                continue
            dv = vals(r1)
            tagv = vals(r2)
            lib_d, lib_a = dv[0], dv[1]
            scale_tol = 1.0
            if ref['found']:
                want_d = ref['distance']     # distance_to_plane is signed for faults too
                # close to the vertical through the trench the foot error of the trench-curve solver (its stop rule leaves up to ~2e-7 of the
                # trench length along the trench; C19) changes the horizontal distance by foot_error^2 / (2|h|): observed 1.3e-3 m at
                # |h| = 6.5 m on a 1820 km trench
                Ltr = t['Lt'] if not t['sph'] else t['R'] * math.radians(abs(t['lon1'] - t['lon0']) if t['orient'] == 'equator' else 2 * t['a'])
                foot_tol = (2e-7 * Ltr) ** 2 / (2.0 * max(abs(p['h']), 1.0))
                bad = (not math.isfinite(lib_d)) or abs(lib_d - want_d) > TOL_ABS + foot_tol + TOL_REL * abs(want_d) or abs(lib_a - ref['along']) > TOL_ABS + foot_tol + TOL_REL * abs(ref['along'])
                if bad and t['sph']:
                    # signature of the non-orthonormal local frame of spherical worlds: h' = (r + rho) sin(phi/2), same v
                    h2 = (p['r'] + p['rho']) * math.sin(p['phi'] / 2.0)
                    ref2 = slabref.distances(t['profile'], h2, p['v'])
                    skew = False
                    if ref2['ambiguous']:
                        skew = None
                    elif ref2['found'] and math.isfinite(lib_d):
                        w2 = ref2['distance']
                        skew = abs(lib_d - w2) <= 1.0 + 1e-7 * abs(w2) and abs(lib_a - ref2['along']) <= 1.0 + 1e-7 * abs(ref2['along'])
                    elif not ref2['found'] and not math.isfinite(lib_d):
                        skew = True
                    if skew is None:
                        bad = False
                        ref = None
                    elif skew:
                        V.violation('spherical:non-orthonormal-local-frame:h=(r+rho)sin(phi/2)-instead-of-r*sin(phi)', dict(detail, skew_reference=ref2))
                        bad = False
                        ref = None
                if bad and not t['sph'] and not math.isfinite(lib_d) and abs(p['h']) > t['Lt']:
                    # the closest-point solver of the trench curve found no foot: its far-field failure (see C19), the trench is
                    # shorter than the horizontal distance of the point from it
                    V.violation('no-trench-foot:far-field(distance>trench-length)%s' % suffix, dict(detail, trench_length=t['Lt']))
                    continue
                if bad:
                    V.violation('distance-differs-from-planar-construction:%s%s' % (kind, suffix), dict(detail, lib=(lib_d, lib_a)))
                    continue
            else:
                if math.isfinite(lib_d) and not t['sph']:
                    V.violation('distance-reported-where-no-segment-has-a-perpendicular-foot:%s%s' % (kind, suffix), dict(detail, lib=(lib_d, lib_a)))
                    continue
            if ref is None:
                continue
            inside, margin = slabref.member('fault' if kind == 'fault' else 'slab', ref, t['table'], t['total'], p['q'][3], t['d0'], t['d1'])
            if margin < 1e-2 or t['sph']:
                pass
            else:
                got = tagv[0] == 0.0
                if got != inside:
                    V.violation('membership-differs:%s:%s%s' % (kind, 'library-says-inside' if got else 'library-says-outside', suffix), dict(detail, expected_inside=inside, margin=margin, tag=tagv[0]))
            if ref['found'] and abs(ref['distance']) < 2 * t['table'][0][0] and -0.1 * t['total'] <= ref['along'] <= 1.1 * t['total']:
                V.nontrivial((fn, p['q']))
        V.sample({'world': fn, 'class': hcls, 'kind': kind, 'segments': t['profile_spec'], 'd0': t['d0'], 'query': plan[0][0]['q'] if plan else None,
                  'library': c.results[plan[0][1]][1] if plan else None})
    V.coverage['ambiguous_reference_points_skipped'] = skipped
    return V.finish(floor_nontrivial=2000 if tier == 'quick' else 50000, floor_evaluations=8000)
