"""C18 - gwb-grid writes the requested mesh and the library's values at its nodes (DESIGN.md C18)."""
import concurrent.futures
import math
import os
import random
import shutil
import subprocess
import xml.etree.ElementTree as ET

from . import core, worldgen as wg

PID = 'C18'
PI = math.pi


def fmt(v):
    return '%g' % v


# ------------------------------------------------------------------------------------------- reference meshes
def ref_mesh(spec):
    """-> dict(nodes: list of (x, y, z) full precision cartesian points handed to the library (2D: (x, z)), depth: list,
    logical: list of logical indices, ncells, cell_logic: function(set of logical indices) -> bool)"""
    gt, dim = spec['grid_type'], spec['dim']
    nx, ny, nz = spec['n_cell_x'], spec.get('n_cell_y', 1), spec['n_cell_z']
    nodes, depth, logical = [], [], []
    if gt == 'cartesian':
        dx = (spec['x_max'] - spec['x_min']) / float(nx)
        dz = (spec['z_max'] - spec['z_min']) / float(nz)
        surface = spec['z_max']
        if dim == 2:
            for j in range(nz + 1):
                for i in range(nx + 1):
                    nodes.append((spec['x_min'] + float(i) * dx, spec['z_min'] + float(j) * dz))
                    depth.append((surface - spec['z_min']) - float(j) * dz)
                    logical.append((i, 0, j))
        else:
            dy = (spec['y_max'] - spec['y_min']) / float(ny)
            for i in range(nx + 1):
                for j in range(ny + 1):
                    for k in range(nz + 1):
                        nodes.append((spec['x_min'] + float(i) * dx, spec['y_min'] + float(j) * dy, spec['z_min'] + float(k) * dz))
                        depth.append((surface - spec['z_min']) - float(k) * dz)
                        logical.append((i, j, k))
        ncells = nx * nz * (ny if dim == 3 else 1)
        return {'nodes': nodes, 'depth': depth, 'logical': logical, 'ncells': ncells, 'wrap': None, 'top': spec['z_max']}
    if gt == 'chunk':
        d2r = PI / 180.0
        x_min, x_max = spec['x_min'] * d2r, spec['x_max'] * d2r
        inner, outer = spec['z_min'], spec['z_max']
        dlong = (x_max - x_min) / float(nx)
        lr = outer - inner
        dr = lr / float(nz)
        if dim == 2:
            for i in range(1, nx + 2):
                for j in range(1, nz + 2):
                    lon = x_min + (float(i) - 1.0) * dlong
                    r = inner + (float(j) - 1.0) * dr
                    nodes.append((r * math.cos(lon), r * math.sin(lon)))
                    depth.append(lr - (float(j) - 1.0) * dr)
                    logical.append((i - 1, 0, j - 1))
        else:
            y_min, y_max = spec['y_min'] * d2r, spec['y_max'] * d2r
            dlat = (y_max - y_min) / float(ny)
            for i in range(1, nx + 2):
                for j in range(1, ny + 2):
                    for k in range(1, nz + 2):
                        lon = x_min + (float(i) - 1.0) * dlong
                        lat = y_min + (float(j) - 1.0) * dlat
                        r = inner + (float(k) - 1.0) * dr
                        nodes.append((r * math.cos(lat) * math.cos(lon), r * math.cos(lat) * math.sin(lon), r * math.sin(lat)))
                        depth.append(lr - (float(k) - 1.0) * dr)
                        logical.append((i - 1, j - 1, k - 1))
        ncells = nx * nz * (ny if dim == 3 else 1)
        return {'nodes': nodes, 'depth': depth, 'logical': logical, 'ncells': ncells, 'wrap': None, 'top': outer}
    if gt == 'annulus':
        inner, outer = spec['z_min'], spec['z_max']
        l_outer = 2.0 * PI * outer
        lr = outer - inner
        dr = lr / float(nz)
        nt = int((2.0 * PI * outer) / dr)
        sx = l_outer / float(nt)
        for j in range(nz + 1):
            for i in range(1, nt + 1):
                xi = (float(i) - 1.0) * sx
                zi = float(j) * dr
                theta = xi / l_outer * 2.0 * PI
                x, z = math.cos(theta) * (inner + zi), math.sin(theta) * (inner + zi)
                d = outer - math.sqrt(x * x + z * z)
                d = 0 if abs(d) < 1e-8 else d
                nodes.append((x, z))
                depth.append(d)
                logical.append((i - 1, 0, j))
        return {'nodes': nodes, 'depth': depth, 'logical': logical, 'ncells': nt * nz, 'wrap': nt, 'top': outer}
    raise ValueError(gt)


# ------------------------------------------------------------------------------------------- vtu parsing
def parse_vtu(path):
    tree = ET.parse(path)
    root = tree.getroot()
    piece = root.find('UnstructuredGrid').find('Piece')
    npts, ncells = int(piece.get('NumberOfPoints')), int(piece.get('NumberOfCells'))
    out = {'npts': npts, 'ncells': ncells, 'pointdata': {}}
    for da in piece.find('PointData').findall('DataArray'):
        out['pointdata'][da.get('Name')] = (da.text or '').split()
    out['points'] = (piece.find('Points').find('DataArray').text or '').split()
    for da in piece.find('Cells').findall('DataArray'):
        out[da.get('Name')] = [int(t) for t in (da.text or '').split()]
    return out


VTK_TYPES = {'Float64': 'd', 'Float32': 'f', 'Int64': 'q', 'UInt64': 'Q', 'Int32': 'i', 'UInt32': 'I', 'Int16': 'h', 'UInt16': 'H', 'Int8': 'b', 'UInt8': 'B'}


def read_vtu_any(path):
    """VTU reader for all output formats of the tool (ascii, inline base64, appended base64, appended raw): arrays as lists of numbers.
    -> {'format', 'npts', 'ncells', 'arrays': {(section, name): values}} ; raises ValueError with a description when the file is malformed"""
    import base64
    import re
    import struct
    raw = open(path, 'rb').read()
    k = raw.find(b'<AppendedData')
    head, appended, enc = raw, None, None
    if k >= 0:
        head = raw[:k]
        m = re.match(rb'<AppendedData([^>]*)>\s*_', raw[k:], re.S)
        if not m:
            raise ValueError('AppendedData without the _ marker')
        enc = re.search(rb'encoding="([^"]*)"', m.group(1)).group(1).decode()
        end = raw.rfind(b'</AppendedData>')
        appended = raw[k + m.end():end]
        if enc == 'base64':
            appended = appended.strip()
    vf = re.search(rb'<VTKFile([^>]*)>', head)
    if not vf:
        raise ValueError('no VTKFile element')
    hattr = dict((a.decode(), b.decode()) for a, b in re.findall(rb'(\w+)="([^"]*)"', vf.group(1)))
    if hattr.get('compressor'):
        raise ValueError('compressed')
    htype = VTK_TYPES.get(hattr.get('header_type', 'UInt32'), 'I')
    hsize = struct.calcsize(htype)
    bo = '<' if hattr.get('byte_order', 'LittleEndian') == 'LittleEndian' else '>'
    piece = re.search(rb'<Piece([^>]*)>', head)
    pattr = dict((a.decode(), b.decode()) for a, b in re.findall(rb'(\w+)="([^"]*)"', piece.group(1)))
    out = {'npts': int(pattr['NumberOfPoints']), 'ncells': int(pattr['NumberOfCells']), 'arrays': {}, 'format': None}
    sections = [(mm.start(), mm.group(1).decode()) for mm in re.finditer(rb'<(PointData|CellData|Points|Cells)[ >]', head)]
    for mm in re.finditer(rb'<DataArray([^>]*?)(/>|>(.*?)</DataArray>)', head, re.S):
        attr = dict((a.decode(), b.decode()) for a, b in re.findall(rb'(\w+)="([^"]*)"', mm.group(1)))
        sec = [nm for (pos, nm) in sections if pos < mm.start()][-1]
        code = VTK_TYPES[attr['type']]
        size = struct.calcsize(code)
        fmt = attr.get('format', 'ascii')
        out['format'] = fmt if fmt != 'appended' else 'appended-' + enc
        name = attr.get('Name', sec)
        if fmt == 'ascii':
            vals = [float(x) if code in 'df' else int(x) for x in (mm.group(3) or b'').split()]
        elif fmt == 'binary':
            text = b''.join((mm.group(3) or b'').split())
            nh = 4 * ((hsize + 2) // 3)
            nbytes = struct.unpack(bo + htype, base64.b64decode(text[:nh])[:hsize])[0]
            data = base64.b64decode(text[nh:])
            if len(data) != nbytes:
                raise ValueError('%s: header announces %d bytes, %d decoded' % (name, nbytes, len(data)))
            vals = list(struct.unpack(bo + '%d%s' % (nbytes // size, code), data))
        elif fmt == 'appended':
            off = int(attr['offset'])
            if enc == 'raw':
                nbytes = struct.unpack(bo + htype, appended[off:off + hsize])[0]
                data = appended[off + hsize:off + hsize + nbytes]
            else:
                first = base64.b64decode(appended[off:off + 4 * ((hsize + 2) // 3)])
                nbytes = struct.unpack(bo + htype, first[:hsize])[0]
                if nbytes > len(appended):
                    raise ValueError('%s: offset %d: header announces %d bytes, the appended section has %d characters' % (name, off, nbytes, len(appended)))
                nchar = 4 * ((hsize + nbytes + 2) // 3)
                data = base64.b64decode(appended[off:off + nchar])[hsize:hsize + nbytes]
            if len(data) != nbytes or nbytes % size:
                raise ValueError('%s: offset %d: header announces %d bytes, %d available' % (name, off, nbytes, len(data)))
            vals = list(struct.unpack(bo + '%d%s' % (nbytes // size, code), data))
        else:
            raise ValueError('unknown format ' + fmt)
        out['arrays'][(sec, name)] = vals
    return out


def run_tool(args):
    exe, argv, cwd = args
    env = core.san_env('asan')
    try:
        p = subprocess.run([exe] + argv, cwd=cwd, env=env, stdout=subprocess.PIPE, stderr=subprocess.PIPE, text=True, timeout=600, errors='replace')
        return p.returncode, p.stdout, p.stderr
    except subprocess.TimeoutExpired:
        return 'timeout', '', ''


def grid_text(rng, spec):
    lines = ['# output variables', 'grid_type = %s' % spec['grid_type'], 'dim = %d' % spec['dim'], 'compositions = %d' % spec['compositions'], 'vtu_output_format = ASCII', '', '# domain']
    keys = ['x_min', 'x_max', 'z_min', 'z_max', 'n_cell_x', 'n_cell_z']
    if spec['dim'] == 3 or spec['grid_type'] in ('annulus',):
        keys += ['y_min', 'y_max', 'n_cell_y']
    rng.shuffle(keys)
    for k in keys:
        v = spec.get(k, 1 if k.startswith('n_') else 0.0)
        lines.append('%s = %s' % (k, repr(v) if isinstance(v, float) else v))
    if rng.random() < 0.5:
        # the option lines in any order (grid_type, dim, ... behind or between the domain bounds): a grid file is a set of assignments
        opts = [l for l in lines if ' = ' in l]
        rng.shuffle(opts)
        lines = ['# options in no particular order'] + opts[:len(opts) // 2] + ['', '# more'] + opts[len(opts) // 2:]
    return '\n'.join(lines) + '\n'


def gen_run(rng, i, workdir):
    """a generated world and a grid that covers its features"""
    gt = rng.choice(['cartesian', 'cartesian', 'chunk', 'chunk', 'annulus', 'sphere'])
    dim = 2 if gt == 'annulus' else (3 if gt == 'sphere' else rng.choice([2, 3]))
    sph = gt != 'cartesian'
    ctx = wg.Ctx(True, 6371000.0, None, rng.choice(['starting point', 'begin segment'])) if sph else wg.Ctx(False, 6371000.0, 0.0)
    zero_top = False
    opts = {'ctx': ctx, 'nfeatures': (1, 4), 'cross_section': dim == 2, 'p_velocity': 0.5, 'p_grains': 0.0, 'ncomp': 3, 'force_surface': False,
            'types': ['continental plate', 'oceanic plate', 'mantle layer', 'plume', 'subducting plate', 'fault']}
    if gt == 'annulus':
        opts['cross_section'] = True
    w = wg.gen_world(rng, opts)
    doc = w['json']
    base = w['truth']['base']
    spec = {'grid_type': gt, 'dim': dim, 'compositions': rng.choice([0, 1, 3])}
    if gt == 'cartesian':
        top = rng.choice([0.0, 0.0, wg.R(rng.uniform(1e5, 1e6))])
        zero_top = top == 0.0
        depth = wg.R(rng.uniform(3e5, 9e5))
        spec.update(z_max=top, z_min=wg.R(top - depth))
        if dim == 3:
            spec.update(x_min=wg.R(base[0] - 1.5 * base[2]), x_max=wg.R(base[0] + 1.5 * base[2]), y_min=wg.R(base[1] - 1.5 * base[2]), y_max=wg.R(base[1] + 1.5 * base[2]))
        else:
            cs = w['truth']['cross']
            L = math.hypot(cs[1][0] - cs[0][0], cs[1][1] - cs[0][1])
            spec.update(x_min=wg.R(-0.2 * L), x_max=wg.R(1.2 * L))
    elif gt == 'chunk':
        spec.update(z_max=6371000.0, z_min=wg.R(6371000.0 - rng.uniform(3e5, 1.2e6)))
        if dim == 3:
            spec.update(x_min=wg.R(base[0] - 1.5 * base[2]), x_max=wg.R(base[0] + 1.5 * base[2]), y_min=wg.R(max(-89.0, base[1] - 1.5 * base[2])), y_max=wg.R(min(89.0, base[1] + 1.5 * base[2])))
        else:
            cs = w['truth']['cross']
            ang = math.hypot(cs[1][0] - cs[0][0], cs[1][1] - cs[0][1])
            spec.update(x_min=wg.R(-0.2 * ang), x_max=wg.R(1.2 * ang))
    else:
        spec.update(z_max=6371000.0, z_min=wg.R(6371000.0 - rng.uniform(5e5, 2.5e6)), x_min=-25.0, x_max=25.0, y_min=-25.0, y_max=25.0)
    hi = 12 if dim == 3 else 40
    spec['n_cell_x'] = rng.choice([1, 2, 3, 5, 7, rng.randint(1, hi)])
    spec['n_cell_y'] = spec['n_cell_x'] if gt == 'sphere' else rng.choice([1, 2, 3, 5, rng.randint(1, hi)])
    spec['n_cell_z'] = rng.choice([1, 2, 3, 5, rng.randint(1, hi)])
    if gt == 'sphere':
        spec['n_cell_x'] = spec['n_cell_y'] = rng.randint(1, 6)
        spec['n_cell_z'] = rng.randint(1, 5)
    if gt == 'annulus':
        spec['n_cell_z'] = rng.randint(2, 12)
    d = os.path.join(workdir, 'r%d' % i)
    os.makedirs(d)
    with open(os.path.join(d, 'world.wb'), 'w') as f:
        f.write(wg.dumps(doc))
    with open(os.path.join(d, 'grid.grid'), 'w') as f:
        f.write(grid_text(rng, spec))
    j = rng.choice([1, 2, 3, 5, 8, 16, 33])
    flags = []
    if rng.random() < 0.5:
        flags.append('--filtered')
    if rng.random() < 0.4:
        flags.append('--by-tag')
    return {'i': i, 'dir': d, 'spec': spec, 'argv': ['-j', str(j)] + flags + ['world.wb', 'grid.grid'], 'doc': doc, 'ctx': ctx, 'zero_top': zero_top, 'flags': flags, 'j': j}


def main(tier, seed, replay):
    core.build('asan')
    rng = random.Random(seed * 65537 + 18)
    V = core.Verdict(PID, tier, seed)
    V.coverage['rule'] = ('the ASan+UBSan build of gwb-grid on generated worlds and grid files (cartesian 2D/3D incl. the surface-at-z=0 convention, chunk 2D/3D, annulus, sphere; 1-40 cells per direction, random bounds, '
                          'several -j, --filtered / --by-tag): XML well formed, declared counts = array lengths, node set = independent reference mesh (formatted like the tool), every cell the 2^dim corners of one logical box '
                          '(annulus with wrap; sphere: shell structure, face sharing, positive volumes summing to the shell volume), Depth = distance below the top, node values = library values at the reference node '
                          '(string equality of the %g rendering, numeric 5e-6 + neighbourhood check otherwise), filtered/by-tag files = exactly the cells whose highest node tag is selected with unchanged node values; '
                          'the same grid written as Base64Inline / Base64Appended / RawBinary read back through its own headers and offsets and compared with the ASCII file; '
                          'non-trivial = nodes inside a feature')
    nruns = 150 if tier == "quick" else 3000
    workdir = os.path.join(core.WORK, PID)
    shutil.rmtree(workdir, ignore_errors=True)
    os.makedirs(workdir)
    runs = [gen_run(random.Random(rng.getrandbits(48)), i, workdir) for i in range(nruns)]
    exe = core.exe('asan', 'gwb-grid')
    with concurrent.futures.ThreadPoolExecutor(max_workers=8) as ex:
        outs = list(ex.map(run_tool, [(exe, r['argv'], r['dir']) for r in runs]))
    # reference values through wbmon
    cases = []
    for r in runs:
        spec = r['spec']
        props = [(1, 0, 0), (5, 0, 0), (4, 0, 0)] + [(2, c, 0) for c in range(spec['compositions'])]
        r['props'] = props
        c = core.Case('r%d' % r['i'])
        c.add('world', 1, 1, 0, 0, '-', os.path.join(r['dir'], 'world.wb'))
        c.add('tags', 1)
        r['case'] = c
        if spec['grid_type'] != 'sphere':
            m = ref_mesh(spec)
            r['mesh'] = m
            idx = []
            for p, d in zip(m['nodes'], m['depth']):
                if spec['dim'] == 2:
                    idx.append(c.add('q2', 1, core.hx(p[0]), core.hx(p[1]), core.hx(d), core.props_str(props)))
                else:
                    idx.append(c.add('q3', 1, core.hx(p[0]), core.hx(p[1]), core.hx(p[2]), core.hx(d), core.props_str(props)))
            r['idx'] = idx
        cases.append(c)
    core.run_cases('asan', cases, PID + '_ref', per_case_timeout=300)
    for r, (rc, out, err) in zip(runs, outs):
        check_run(V, r, rc, out, err)
    # ---- the other output formats of the same grid: every array equal to the ASCII file's (binary formats bit-identical among themselves)
    nfmt = 24 if tier == 'quick' else 400
    fjobs = []
    for r in runs[:nfmt]:
        gridfile = next((a for a in r['argv'] if a.endswith('.grid')), None)
        if gridfile is None:
            continue
        base = open(os.path.join(r['dir'], gridfile)).read()
        for fmt in ('Base64Inline', 'Base64Appended', 'RawBinary'):
            d = os.path.join(r['dir'], 'fmt_' + fmt)
            os.makedirs(d, exist_ok=True)
            shutil.copy(os.path.join(r['dir'], 'world.wb'), d)
            with open(os.path.join(d, gridfile), 'w') as f:
                f.write(base.replace('vtu_output_format = ASCII', 'vtu_output_format = ' + fmt))
            fjobs.append((r, fmt, d, gridfile))
    with concurrent.futures.ThreadPoolExecutor(max_workers=8) as ex:
        fouts = list(ex.map(run_tool, [(exe, ['-j', '2', 'world.wb', gf], d) for (r, fmt, d, gf) in fjobs]))
    by_run = {}
    for (r, fmt, d, gf), (rc, out, err) in zip(fjobs, fouts):
        label = '%s:dim%d' % (r['spec']['grid_type'], r['spec']['dim'])
        asc = os.path.join(r['dir'], 'world.vtu')
        other = os.path.join(d, 'world.vtu')
        if not os.path.exists(asc):
            continue
        V.count()
        base = {'dir': d, 'format': fmt, 'spec': r['spec'], 'rc': rc, 'stderr_tail': err[-300:]}
        if rc != 0 or not os.path.exists(other):
            V.violation('output-format:tool-fails:%s' % fmt, base)
            continue
        try:
            A = read_vtu_any(asc)
            B = read_vtu_any(other)
        except ValueError as e:
            if str(e) == 'compressed':
                continue
            V.violation('output-format:file-not-readable-through-its-own-offsets-and-headers:%s' % fmt, dict(base, error=str(e)))
            continue
        except Exception as e:
            V.violation('output-format:file-not-readable-through-its-own-offsets-and-headers:%s' % fmt, dict(base, error=repr(e)))
            continue
        if (A['npts'], A['ncells']) != (B['npts'], B['ncells']) or set(A['arrays']) != set(B['arrays']):
            V.violation('output-format:arrays-or-counts-differ-from-the-ascii-file:%s' % fmt, dict(base, ascii=sorted(map(str, A['arrays'])), other=sorted(map(str, B['arrays']))))
            continue
        bad = None
        for key, va in A['arrays'].items():
            vb = B['arrays'][key]
            if len(va) != len(vb) or any(abs(x - y) > 1e-5 * max(abs(x), abs(y)) + 1e-30 for x, y in zip(va, vb)):
                bad = key
                break
        if bad:
            V.violation('output-format:values-differ-from-the-ascii-file:%s' % fmt, dict(base, array=str(bad), ascii=A['arrays'][bad][:6], other=B['arrays'][bad][:6]))
            continue
        prev = by_run.setdefault(r['i'], B)
        if prev is not B and any(prev['arrays'][k] != B['arrays'][k] for k in B['arrays']):
            V.violation('output-format:binary-formats-disagree-bitwise:%s' % fmt, base)
        V.nontrivial(('format', r['i'], fmt, A['npts'] % 3))
    return V.finish(floor_nontrivial=1200 if tier == "quick" else 30000, floor_evaluations=5000)


def cell_volume_hex(pts):
    """volume of a hexahedron with VTK ordering (0-3 bottom, 4-7 top) by splitting into 5 tetrahedra is orientation dependent;
    use the divergence theorem on the 6 quad faces (each split into two triangles) -> signed volume"""
    faces = [(0, 3, 2, 1), (4, 5, 6, 7), (0, 1, 5, 4), (1, 2, 6, 5), (2, 3, 7, 6), (3, 0, 4, 7)]
    vol = 0.0
    for f in faces:
        a, b, c, d = (pts[k] for k in f)
        for tri in ((a, b, c), (a, c, d)):
            (x1, y1, z1), (x2, y2, z2), (x3, y3, z3) = tri
            vol += (x1 * (y2 * z3 - y3 * z2) - y1 * (x2 * z3 - x3 * z2) + z1 * (x2 * y3 - x3 * y2)) / 6.0
    return vol


def check_run(V, r, rc, out, err):
    spec = r['spec']
    label = '%s:dim%d' % (spec['grid_type'], spec['dim'])
    base = {'dir': r['dir'], 'spec': spec, 'argv': r['argv'], 'rc': rc, 'stderr_tail': err[-500:]}
    c = r['case']
    if rc == 'timeout':
        V.violation('gwb-grid-hangs:%s' % label, base)
        return
    if ('AddressSanitizer' in err and 'AddressSanitizer: ABRT' not in err) or 'runtime error:' in err:
        kind, frame = core.parse_sanitizer_log(err)
        V.violation('crash:%s:%s' % (kind, frame), base)
        return
    if c.crash:
        V.crash(c, r['dir'])
        return
    if c.results[0][0] != 'ok':
        return    # the world is not valid: nothing to compare
    vtu = os.path.join(r['dir'], 'world.vtu')
    if rc != 0 or not os.path.exists(vtu):
        # the tool may legitimately stop when the library throws for a node (2D grid of a world ... ) - check with the reference
        if spec['grid_type'] != 'sphere' and any(c.results[i][0] == 'ex' for i in r['idx']):
            return
        V.violation('gwb-grid-fails-on-a-valid-request:%s' % label, base)
        return
    try:
        m = parse_vtu(vtu)
    except ET.ParseError as e:
        V.violation('vtu-not-well-formed:%s' % label, dict(base, error=str(e)))
        return
    dim = spec['dim']
    nv = 4 if dim == 2 else 8
    pd = m['pointdata']
    names = ['Depth', 'Temperature', 'velocity', 'Tag'] + ['Composition %d' % k for k in range(spec['compositions'])]
    if sorted(pd) != sorted(names):
        V.violation('vtu-data-arrays-differ-from-the-requested-ones:%s' % label, dict(base, arrays=sorted(pd), expected=names))
        return
    lens_ok = len(m['points']) == 3 * m['npts'] and len(pd['Depth']) == m['npts'] and len(pd['Temperature']) == m['npts'] and len(pd['velocity']) == 3 * m['npts'] and \
        len(pd['Tag']) == m['npts'] and len(m['connectivity']) == nv * m['ncells'] and len(m['offsets']) == m['ncells'] and len(m['types']) == m['ncells'] and \
        all(len(pd['Composition %d' % k]) == m['npts'] for k in range(spec['compositions']))
    if not lens_ok:
        V.violation('vtu-declared-counts-differ-from-array-lengths:%s' % label, base)
        return
    if any(not (0 <= k < m['npts']) for k in m['connectivity']):
        V.violation('vtu-connectivity-out-of-range:%s' % label, base)
        return
    if m['offsets'] != [nv * (k + 1) for k in range(m['ncells'])] or any(t != (9 if dim == 2 else 12) for t in m['types']):
        V.violation('vtu-offsets-or-cell-types-wrong:%s' % label, base)
        return
    tags = c.results[1][1].split('|') if c.results[1][1] else []
    suffix = ':surface-at-z=0' if r['zero_top'] else ''
    if spec['grid_type'] == 'sphere':
        check_sphere(V, r, m, base, label)
    else:
        ref = r['mesh']
        if m['npts'] != len(ref['nodes']) or m['ncells'] != ref['ncells']:
            V.violation('mesh-size-differs-from-the-request:%s' % label, dict(base, points=(m['npts'], len(ref['nodes'])), cells=(m['ncells'], ref['ncells'])))
            return
        # node set as a multiset of formatted coordinates
        table = {}
        for k, p in enumerate(ref['nodes']):
            key = (fmt(p[0]), fmt(p[1]), '0') if dim == 2 else (fmt(p[0]), fmt(p[1]), fmt(p[2]))
            table.setdefault(key, []).append(k)
        node_ref = []
        used = set()
        for k in range(m['npts']):
            key = tuple(m['points'][3 * k:3 * k + 3])
            cand = [q for q in table.get(key, []) if q not in used]
            if not cand:
                V.violation('node-not-in-the-requested-mesh:%s' % label, dict(base, node=key, index=k))
                return
            used.add(cand[0])
            node_ref.append(cand[0])
        # cells: the 2^dim corners of one logical box
        seen = set()
        for ci in range(m['ncells']):
            corners = [ref['logical'][node_ref[k]] for k in m['connectivity'][nv * ci:nv * ci + nv]]
            i0 = min(cn[0] for cn in corners)
            j0 = min(cn[1] for cn in corners)
            k0 = min(cn[2] for cn in corners)
            want = set()
            if ref['wrap'] and any(cn[0] == 0 for cn in corners) and any(cn[0] == ref['wrap'] - 1 for cn in corners) and ref['wrap'] > 2:
                iset = (ref['wrap'] - 1, 0)
                i0 = ref['wrap'] - 1
            else:
                iset = (i0, i0 + 1)
            for a in iset:
                for b in ((j0, j0 + 1) if dim == 3 else (0,)):
                    for cc in (k0, k0 + 1):
                        want.add((a, b, cc))
            if set(corners) != want or len(set(corners)) != nv or (i0, j0, k0) in seen:
                V.violation('cell-is-not-a-logical-box-of-the-mesh:%s' % label, dict(base, cell=ci, corners=corners))
                return
            seen.add((i0, j0, k0))
        # node values
        props = r['props']
        bad = []
        for k in range(m['npts']):
            q = node_ref[k]
            res = c.results[r['idx'][q]]
            V.count()
            if res[0] != 'ok':
                continue
            v = core.hv(res[1])
            want = {'Depth': [fmt(ref['depth'][q])], 'Temperature': [fmt(v[0])], 'velocity': [fmt(v[1]), fmt(v[2]), fmt(v[3])], 'Tag': [fmt(v[4])]}
            for cc in range(spec['compositions']):
                want['Composition %d' % cc] = [fmt(v[5 + cc])]
            got = {'Depth': [pd['Depth'][k]], 'Temperature': [pd['Temperature'][k]], 'velocity': pd['velocity'][3 * k:3 * k + 3], 'Tag': [pd['Tag'][k]]}
            for cc in range(spec['compositions']):
                got['Composition %d' % cc] = [pd['Composition %d' % cc][k]]
            if v[4] >= 0:
                V.nontrivial((r['i'], k))
            for name in names:
                if got[name] != want[name]:
                    # numeric tolerance of the 6 digit print
                    try:
                        ok_num = all(abs(float(a) - float(b)) <= 5e-6 * max(abs(float(a)), abs(float(b))) + 1e-300 for a, b in zip(got[name], want[name]))
                    except ValueError:
                        ok_num = False
                    if not ok_num:
                        bad.append((k, name, got[name], want[name], ref['nodes'][q], ref['depth'][q]))
        for (k, name, g, wv, node, d) in bad[:50]:
            key = 'depth-is-not-the-distance-below-the-top' if name == 'Depth' else 'node-value-differs-from-the-library:%s' % name.split(' ')[0]
            V.violation('%s:%s%s' % (key, label, suffix), dict(base, node_index=k, array=name, written=g, library=wv, node=node, depth=d))
    # filtered and by-tag outputs
    if '--filtered' in r['flags'] or '--by-tag' in r['flags']:
        check_filtered(V, r, m, base, label, tags)
    V.sample({'dir': r['dir'], 'spec': spec, 'argv': r['argv'], 'points': m['npts'], 'cells': m['ncells']}, limit=4)


def check_filtered(V, r, m, base, label, tags):
    dim = r['spec']['dim']
    nv = 4 if dim == 2 else 8
    tagv = [int(float(t)) for t in m['pointdata']['Tag']]
    include_all = [t != 'mantle layer' for t in tags]
    jobs = []
    if '--filtered' in r['flags']:
        jobs.append(('world.filtered.vtu', include_all, 'filtered'))
    if '--by-tag' in r['flags']:
        for idx, t in enumerate(tags):
            if t == 'mantle layer':
                if os.path.exists(os.path.join(r['dir'], 'world.%d.vtu' % idx)):
                    V.violation('by-tag-file-written-for-a-mantle-layer-tag', base)
                continue
            inc = [False] * len(tags)
            inc[idx] = True
            jobs.append(('world.%d.vtu' % idx, inc, 'by-tag'))
    for (fn, include, kind) in jobs:
        path = os.path.join(r['dir'], fn)
        V.count()
        if not os.path.exists(path):
            V.violation('%s-file-missing:%s' % (kind, label), dict(base, file=fn))
            continue
        try:
            f = parse_vtu(path)
        except ET.ParseError as e:
            V.violation('%s-file-not-well-formed:%s' % (kind, label), dict(base, file=fn, error=str(e)))
            continue
        # expected cells: highest node tag selected
        want_cells = []
        for ci in range(m['ncells']):
            conn = m['connectivity'][nv * ci:nv * ci + nv]
            hi = max(tagv[k] for k in conn)
            if hi >= 0 and hi < len(include) and include[hi]:
                want_cells.append(ci)
        if f['ncells'] != len(want_cells):
            V.violation('%s-cells-are-not-exactly-the-selected-ones:%s' % (kind, label), dict(base, file=fn, cells=f['ncells'], expected=len(want_cells)))
            continue
        names = list(m['pointdata'])
        okc = True
        used_nodes = set()
        for k, ci in enumerate(want_cells):
            conn_f = f['connectivity'][nv * k:nv * k + nv]
            conn_m = m['connectivity'][nv * ci:nv * ci + nv]
            for a, b in zip(conn_f, conn_m):
                used_nodes.add(a)
                if f['points'][3 * a:3 * a + 3] != m['points'][3 * b:3 * b + 3]:
                    okc = False
                for name in names:
                    w = 3 if name == 'velocity' else 1
                    if f['pointdata'][name][w * a:w * a + w] != m['pointdata'][name][w * b:w * b + w]:
                        okc = False
                        bad_name = name
            if not okc:
                break
        if not okc:
            V.violation('%s-node-values-changed:%s' % (kind, label), dict(base, file=fn))
        elif len(used_nodes) != f['npts']:
            V.violation('%s-orphan-nodes:%s' % (kind, label), dict(base, file=fn, nodes=f['npts'], referenced=len(used_nodes)))
        else:
            V.nontrivial((r['i'], fn))


def check_sphere(V, r, m, base, label):
    spec = r['spec']
    n, nz = spec['n_cell_x'], spec['n_cell_z']
    inner, outer = spec['z_min'], spec['z_max']
    shell_p = 12 * (n + 1) * (n + 1)
    pts = [tuple(float(t) for t in m['points'][3 * k:3 * k + 3]) for k in range(m['npts'])]
    V.count(m['npts'])
    if m['ncells'] != nz * 12 * n * n:
        V.violation('mesh-size-differs-from-the-request:%s' % label, dict(base, cells=(m['ncells'], nz * 12 * n * n)))
        return
    if m['npts'] % (nz + 1) != 0:
        V.violation('sphere-nodes-not-a-multiple-of-the-number-of-shells', dict(base, points=m['npts']))
        return
    radii = [inner + (outer - inner) / float(nz) * k for k in range(nz + 1)]
    for k, p in enumerate(pts):
        rr = math.sqrt(p[0] ** 2 + p[1] ** 2 + p[2] ** 2)
        if min(abs(rr - q) for q in radii) > 2e-5 * outer:
            V.violation('sphere-node-not-on-a-requested-shell', dict(base, node=p, radius=rr))
            return
        d = float(m['pointdata']['Depth'][k])
        if abs(d - (outer - rr)) > 2e-5 * outer:
            V.violation('depth-is-not-the-distance-below-the-top:%s' % label, dict(base, node=p, depth=d))
            return
    # faces shared by at most two cells, boundary faces only on the inner and outer shell; volumes positive and summing up
    faces = {}
    vol = 0.0
    for ci in range(m['ncells']):
        conn = m['connectivity'][8 * ci:8 * ci + 8]
        if len(set(conn)) != 8:
            V.violation('sphere-cell-with-repeated-nodes', dict(base, cell=ci))
            return
        for f in ((0, 1, 2, 3), (4, 5, 6, 7), (0, 1, 5, 4), (1, 2, 6, 5), (2, 3, 7, 6), (3, 0, 4, 7)):
            key = tuple(sorted(conn[k] for k in f))
            faces[key] = faces.get(key, 0) + 1
        vol += abs(cell_volume_hex([pts[k] for k in conn]))
    if any(v > 2 for v in faces.values()):
        V.violation('sphere-face-shared-by-more-than-two-cells', base)
        return
    nb = sum(1 for v in faces.values() if v == 1)
    if nb != 2 * 12 * n * n:
        V.violation('sphere-mesh-has-holes-or-overlaps', dict(base, boundary_faces=nb, expected=2 * 12 * n * n))
        return
    exact = 4.0 / 3.0 * PI * (outer ** 3 - inner ** 3)
    # flat faced cells under-estimate the shell volume: 1 cell per block edge ~ 35 %, 2 ~ 12 %, 4 ~ 3 %
    if not (0.5 * exact <= vol <= 1.001 * exact):
        V.violation('sphere-cell-volumes-do-not-sum-to-the-shell-volume', dict(base, volume=vol, exact=exact))
        return
    V._nontrivial.update((r['i'], 'sphere', k) for k in range(min(m['ncells'], 200)))
