"""C07 - acceleration shortcuts never change an answer (DESIGN.md C07).

Two worlds from the same file in one process, one built normally, one built with the GWB_VERIF switch that removes
the slab/fault bounding box and depth cut-off, the min/max pre-test of variable depth surfaces and the nearest
triangle search; the same queries go to both."""
import math
import random

from . import core, worldgen as wg
from .common import world, ok, vals, q3, rel_close
from .check_C11 import convex_polygon, interior_points

PID = 'C07'
PI = math.pi
PROPS = [(4, 0, 0), (1, 0, 0), (2, 0, 0), (2, 1, 0), (3, 0, 2), (5, 0, 0)]


def gen_line_world(rng, force_style=None):
    sph = rng.random() < 0.4 or force_style == 'long-shallow'
    ctx = wg.gen_ctx(rng, sph, exotic=False)
    if sph:
        ctx.depth_method = rng.choice(['starting point', 'begin segment', 'begin at end segment'])
    doc = {}
    wg.gen_globals(rng, ctx, doc, exotic=False, force_surface=False)
    ftype = rng.choice(['subducting plate', 'subducting plate', 'fault'])
    if force_style:
        ftype = 'subducting plate'
    where = None
    zero = False
    if sph:
        mode = rng.random() if not force_style else 0.99
        if mode < 0.3:
            where = (wg.R(rng.choice([-1, 1]) * rng.uniform(172, 180)), wg.R(rng.uniform(-50, 50)), wg.R(rng.uniform(3, 10)))
        elif mode < 0.55:
            where = (wg.R(rng.uniform(-170, 170)), wg.R(rng.choice([-1, 1]) * rng.uniform(70, 86)), wg.R(rng.uniform(1, 3)))
        elif mode < 0.75:
            # around the zero meridian but written next to +-360: the body reaches beyond the written trace, so points on
            # either side of longitude 0 belong to it and each needs its own alias (lon-360 resp. lon+360) to be found
            zsize = rng.uniform(1.5, 4)
            where = (wg.R(rng.choice([-1, 1]) * (360.0 - 0.95 * zsize - rng.uniform(0.0, 1.0))), wg.R(rng.uniform(-50, 50)), wg.R(zsize))
            zero = True
    f, t = wg.gen_line_feature(rng, ctx, ftype, 0, 2, {'sections': rng.random() < 0.3, 'segment_models': False, 'p_temperature': 1.0, 'p_composition': 1.0, 'p_grains': 0.3, 'p_velocity': 0.3,
                                                        'allow_temperature': ['uniform', 'linear', 'adiabatic', 'plate model'], 'max_bend': 40.0}, where)
    if zero:
        # a roughly meridional trace 0.1-1 degree from +-360, dipping towards the zero meridian (dip point at +-360) or away from it
        sgn = 1.0 if where[0] > 0 else -1.0
        n = len(f['coordinates'])
        lat0, span = where[1], where[2]
        lon0 = 360.0 - rng.uniform(0.1, 1.0)
        tr = []
        for k in range(n):
            tr.append([wg.R(sgn * min(359.95, lon0 + rng.uniform(-0.05, 0.05) * k)), wg.R(lat0 - 0.5 * span + span * k / (n - 1.0))])
        f['coordinates'] = tr
        dip = [sgn * 360.0, wg.R(lat0)] if rng.random() < 0.7 else [wg.R(sgn * (lon0 - 5.0)), wg.R(lat0)]
        f['dip point'] = dip
        t = dict(t, trench=[tuple(q) for q in tr], dip=tuple(dip))
    # make the bounds tight
    style = rng.choice(['deep-start', 'shallow-dip', 'steep', 'negative-truncation', 'plain', 'short-thick', 'widening', 'long-shallow'])
    if force_style:
        style = force_style
    segs = f['segments']
    if style == 'deep-start':
        f['min depth'] = wg.num(rng, 1e5, 4e5)
        a = rng.uniform(70, 110)
        for s in segs:
            s['angle'] = [wg.R(a)]
    elif style == 'shallow-dip':
        a = rng.uniform(3, 20)
        for s in segs:
            s['angle'] = [wg.R(a)]
    elif style == 'steep':
        a = rng.uniform(80, 100)
        for s in segs:
            s['angle'] = [wg.R(a)]
    elif style == 'long-shallow':
        # a long slab at a shallow dip: its far end lies many degrees from the trench (the longitude buffer of a spherical box must
        # cover it at the latitude of every part of the trace)
        a = rng.uniform(8, 22)
        total = rng.uniform(1.0e6, 2.0e6)
        for s in segs:
            s['angle'] = [wg.R(a)]
            s['length'] = wg.R(total / len(segs))
        f.pop('sections', None)
        if sph and not zero and (force_style or rng.random() < 0.7):
            # ... along a meridian over 15-30 degrees of latitude in one hemisphere, dipping east or west: the far end of the slab is
            # 10-30 degrees of longitude away at the poleward end of the trace and much less at the equatorward end
            hemi = rng.choice([-1, 1])
            lat_a = hemi * (rng.uniform(25, 45) if force_style else rng.uniform(10, 40))
            lat_b = hemi * min(78.0, abs(lat_a) + rng.uniform(15, 30))
            lon0 = rng.uniform(-120, 120)
            n = len(f['coordinates'])
            tr = [[wg.R(lon0 + rng.uniform(-0.5, 0.5)), wg.R(lat_a + (lat_b - lat_a) * k / (n - 1.0))] for k in range(n)]
            f['coordinates'] = tr
            dip = [wg.R(lon0 + rng.choice([-1, 1]) * 40.0), wg.R(0.5 * (lat_a + lat_b))]
            f['dip point'] = dip
            t = dict(t, trench=[tuple(q) for q in tr], dip=tuple(dip))
    elif style == 'short-thick':
        # total length below the thickness: the thickness part of the buffer / cut-off is what keeps the body inside the bounds
        th = max(max(s['thickness']) for s in segs)
        a = rng.uniform(60, 120)
        for s in segs:
            s['length'] = wg.R(th * rng.uniform(0.2, 0.7) / len(segs))
            s['angle'] = [wg.R(a)]
        f.pop('sections', None)
    elif style == 'widening':
        # thin at the top, thick at the bottom end of every segment, and short: the far part of the body lies beyond
        # length + (thickness at the top), so the bounds must use the largest thickness of either end
        th = max(max(s['thickness']) for s in segs) * rng.uniform(1.0, 2.5)
        a = rng.uniform(45, 135)
        for s in segs:
            s['thickness'] = [wg.R(th * rng.uniform(0.03, 0.2)), wg.R(th)]
            s['length'] = wg.R(th * rng.uniform(0.1, 0.45) / len(segs))
            s['angle'] = [wg.R(a)]
        f.pop('sections', None)
    elif style == 'negative-truncation' and ftype == 'subducting plate':
        # one dip, one truncation: the region above the slab top admitted by the truncation reaches beyond length + thickness
        a = rng.uniform(35, 65)
        th = max(max(s['thickness']) for s in segs)
        tr = wg.R(-th * rng.uniform(1.0, 4.0))
        short = rng.random() < 0.7
        for s in segs:
            s['top truncation'] = [tr]
            if short:
                s['length'] = wg.R(th * rng.uniform(1.5, 2.5) / len(segs))
                s['angle'] = [wg.R(a)]
        f.pop('sections', None)
    if sph and 'min depth' in f:
        f['min depth'] = min(f['min depth'], 2e5)
    f = wg.rnd(wg.strip(f))
    if ctx.sph:
        for cpt in f['coordinates']:
            cpt[1] = max(-89.0, min(89.0, cpt[1]))
            cpt[0] = max(-360.0, min(360.0, cpt[0]))
    doc['features'] = [f]
    d0 = f.get('min depth', 0.0)
    maxlen = sum(s['length'] for s in segs)
    maxth = max(max(s['thickness']) for s in segs)
    if 'sections' in f:
        for sec in f['sections']:
            maxlen = max(maxlen, sum(s['length'] for s in sec['segments']))
            maxth = max(maxth, max(max(s['thickness']) for s in sec['segments']))
    buf = maxlen + maxth
    xs = [p[0] for p in f['coordinates']]
    ys = [p[1] for p in f['coordinates']]
    unit = ctx.unit()
    box = (min(xs), min(ys), max(xs), max(ys), buf / unit)
    t2 = dict(t, trench=[tuple(p) for p in f['coordinates']], d0=d0, length=sum(s['length'] for s in segs), angle0=segs[0]['angle'][0], thickness=segs[0]['thickness'][0])
    pts = []
    dense_tip = 450 if (style == 'long-shallow' and sph) else 0
    for ipt in range(150 + dense_tip):
        r = rng.random()
        if ipt >= 150:
            r = 0.0          # the far, deep end of a long shallow spherical slab, densely: the part a too narrow longitude buffer loses first
        if r < (0.4 if style in ('negative-truncation', 'short-thick', 'widening', 'long-shallow') else 0.15):
            # near the tip of the slab (its underside reaches furthest from the trench): straight-dip estimate in the local frame
            tr = t2['trench']
            k = rng.randrange(len(tr) - 1)
            u = rng.uniform(0.05, 0.95)
            px, py = tr[k][0] + u * (tr[k + 1][0] - tr[k][0]), tr[k][1] + u * (tr[k + 1][1] - tr[k][1])
            ex, ey = tr[k + 1][0] - tr[k][0], tr[k + 1][1] - tr[k][1]
            Ln = math.hypot(ex, ey) or 1.0
            nx, ny = -ey / Ln, ex / Ln
            if (t2['dip'][0] - px) * nx + (t2['dip'][1] - py) * ny < 0:
                nx, ny = -nx, -ny
            th = math.radians(segs[0]['angle'][0])
            ss = rng.uniform(0.8, 1.02) * maxlen
            if ipt >= 150:
                ss = rng.uniform(0.55, 1.02) * maxlen
            nn = rng.uniform(-0.1, 1.05) * maxth * (0.5 if ftype == 'fault' else 1.0)
            if ftype == 'fault' and rng.random() < 0.5:
                nn = -nn          # a fault extends to both sides of its plane
            if style == 'negative-truncation' and ftype == 'subducting plate':
                # the region above the slab top that the truncation admits, mostly close to its upper limit
                tmin = min(min(sg.get('top truncation', [0.0])) for sg in segs)
                nn = tmin * rng.uniform(0.85, 1.0) if rng.random() < 0.7 else rng.uniform(tmin, 0.0)
                ss = rng.uniform(0.9, 1.0) * maxlen
            hh = ss * math.cos(th) - nn * math.sin(th)
            vv = ss * math.sin(th) + nn * math.cos(th)
            clat = max(0.05, math.cos(math.radians(py))) if sph else 1.0      # a degree of longitude is shorter away from the equator
            p = (px + nx * hh / unit / clat, py + ny * hh / unit, max(0.0, d0 + vv))
        elif r < 0.45:
            p = wg.point_in_feature(rng, ctx, t2)
        elif r < 0.8:
            # around the edge of the (buffered) box
            side = rng.randrange(4)
            b = box[4] * rng.uniform(0.6, 1.3)
            if side == 0:
                sx, sy = box[0] - b, rng.uniform(box[1] - b, box[3] + b)
            elif side == 1:
                sx, sy = box[2] + b, rng.uniform(box[1] - b, box[3] + b)
            elif side == 2:
                sx, sy = rng.uniform(box[0] - b, box[2] + b), box[1] - b
            else:
                sx, sy = rng.uniform(box[0] - b, box[2] + b), box[3] + b
            d = rng.uniform(0, d0 + buf * 1.1)
            p = (sx, sy, d)
        else:
            # around the depth cut-off
            sx, sy = rng.uniform(box[0] - box[4], box[2] + box[4]), rng.uniform(box[1] - box[4], box[3] + box[4])
            d = (d0 + buf) * rng.uniform(0.85, 1.1) if rng.random() < 0.5 else buf * rng.uniform(0.85, 1.1)
            p = (sx, sy, d)
        sx, sy, d = p
        if ctx.sph:
            sy = max(-89.9, min(89.9, sy))
            sx = ((sx + 180.0) % 360.0) - 180.0
        pts.append((sx, sy, max(0.0, d)))
    return doc, ctx, pts, {'class': 'line:' + style + (':spherical' if sph else ':cartesian') + (':written-next-to-360' if zero else ''), 'ftype': ftype}


def gen_area_world(rng):
    sph = rng.random() < 0.35
    ctx = wg.gen_ctx(rng, sph, exotic=False)
    doc = {}
    wg.gen_globals(rng, ctx, doc, exotic=False, force_surface=False)
    if sph:
        cx, cy, size = wg.R(rng.uniform(-150, 150)), wg.R(rng.uniform(-40, 40)), wg.R(rng.uniform(4, 12))
        if rng.random() < 0.3:
            cx = wg.R(rng.choice([-1, 1]) * rng.uniform(172, 180))
    else:
        cx, cy, size = wg.num(rng, -1e6, 1e6), wg.num(rng, -1e6, 1e6), wg.num(rng, 2e5, 8e5)
    poly = convex_polygon(rng, cx, cy, size, rng.randint(3, 7))
    inner = interior_points(rng, poly, rng.choice([3, 6, 12, 30]))
    ftype = rng.choice(['continental plate', 'oceanic plate', 'mantle layer'])
    f = {'model': ftype, 'name': 'the feature', 'coordinates': [list(p) for p in poly]}
    lo_base, hi_base = wg.num(rng, 1e4, 8e4), wg.num(rng, 1.5e5, 3e5)
    which = rng.choice(['max', 'min', 'both'])
    vals_all = []
    if which in ('max', 'both'):
        items = [[hi_base]] + [[wg.num(rng, 1.0e5, 4e5), [[p[0], p[1]]]] for p in inner]
        f['max depth'] = items
        vals_all += [it[0] for it in items]
    else:
        f['max depth'] = hi_base
    if which in ('min', 'both'):
        items = [[lo_base]] + [[wg.num(rng, 0, 9e4), [[p[0], p[1]]]] for p in inner]
        f['min depth'] = items
        vals_all += [it[0] for it in items]
    f['temperature models'] = [{'model': 'linear', 'max depth': hi_base, 'top temperature': 300.0, 'bottom temperature': 1600.0}]
    f['composition models'] = [{'model': 'uniform', 'compositions': [0], 'fractions': [wg.num(rng, 0.1, 1.0)]}]
    if rng.random() < 0.4:
        # a model with its own variable depth surface
        f['composition models'].append({'model': 'uniform', 'compositions': [1], 'max depth': [[hi_base]] + [[wg.num(rng, 1e5, 3e5), [[p[0], p[1]]]] for p in inner[:4]]})
    if rng.random() < 0.6:
        # models of every kind with their own variable depth surfaces (hook 5: their min/max pre-tests are skipped in the second world)
        def msurf(lo, hi, k):
            return [[wg.num(rng, lo, hi)]] + [[wg.num(rng, lo, hi), [[p[0], p[1]]]] for p in rng.sample(inner, min(k, len(inner)))]

        def ranged(m):
            w2 = rng.choice(['max', 'min', 'both'])
            if w2 in ('max', 'both'):
                m['max depth'] = msurf(1.2e5, 3.5e5, rng.choice([1, 3, 6]))
                vals_all.extend(it[0] for it in m['max depth'])
            if w2 in ('min', 'both'):
                m['min depth'] = msurf(0.0, 1.0e5, rng.choice([1, 3, 6]))
                vals_all.extend(it[0] for it in m['min depth'])
            return m
        f['velocity models'] = [ranged({'model': 'uniform raw', 'velocity': [0.25, -0.5, 0.125]})]
        f['temperature models'].append(ranged({'model': 'uniform', 'temperature': 111.0, 'operation': 'add'}))
        f['grains models'] = [ranged({'model': 'uniform', 'compositions': [0], 'rotation matrices': [[[0, 1, 0], [1, 0, 0], [0, 0, -1]]], 'grain sizes': [0.5]})]
    doc['features'] = [f]
    pts = []
    x0, y0, x1, y1 = wg.poly_bbox(poly)
    nodes = list(poly) + inner
    for _ in range(150):
        r = rng.random()
        if r < 0.2:
            x, y = rng.choice(nodes)
        elif r < 0.4:
            a, b = rng.sample(nodes, 2)
            u = rng.uniform(0, 1)
            x, y = a[0] + u * (b[0] - a[0]), a[1] + u * (b[1] - a[1])
        else:
            x, y = rng.uniform(x0, x1), rng.uniform(y0, y1)
        d = rng.choice(vals_all) * rng.choice([1.0, 1 - 1e-9, 1 + 1e-9, rng.uniform(0.5, 1.5)]) if rng.random() < 0.6 else rng.uniform(0, 4.5e5)
        if sph:
            x = ((x + 180.0) % 360.0) - 180.0
        pts.append((x, y, max(0.0, d)))
    return doc, ctx, pts, {'class': 'area:' + which + (':spherical' if sph else ':cartesian'), 'ftype': ftype}


def main(tier, seed, replay):
    core.build('asan')
    rng = random.Random(seed * 13007 + 7)
    V = core.Verdict(PID, tier, seed)
    V.coverage['rule'] = ('per file two worlds in one process: normal and built without shortcuts (hooks: slab/fault bounding box and depth cut-off removed, min/max pre-test of variable depth surfaces removed, '
                          'nearest-triangle search replaced by a full scan); same queries to both; bit equality of every value (1e-12 relative for depth-surface lookups on shared triangle edges); generators biased '
                          'to tight bounds (deep starts, shallow and steep dips, negative truncations, bodies widening down dip, long shallow slabs along a meridian, high latitudes, dateline, traces written next to +-360) and to points around the buffered box and the cut-off depth; '
                          'non-trivial = points that the world without shortcuts reports inside the feature')
    n_line, n_area = (150, 80) if tier == 'quick' else (4500, 2400)
    n_long = 12 if tier == 'quick' else 360
    jobs = []
    for i in range(n_line + n_area + n_long):
        wrng = random.Random(rng.getrandbits(48))
        if i >= n_line + n_area:
            # long shallow slabs along a meridian at mid to high latitudes (the longitude buffer of the box must fit every latitude of the trace)
            doc, ctx, pts, meta = gen_line_world(wrng, force_style='long-shallow')
        else:
            doc, ctx, pts, meta = gen_line_world(wrng) if i < n_line else gen_area_world(wrng)
        fn = 'w%d.wb' % i
        c = core.Case('w%d' % i, files={fn: wg.dumps(doc)})
        world(c, 1, core.workfile(PID, fn), noshortcuts=0)
        world(c, 2, core.workfile(PID, fn), noshortcuts=1)
        a = [q3(c, 1, ctx, sx, sy, d, PROPS) for (sx, sy, d) in pts]
        c.add('shortcuts', 0)
        b = [q3(c, 2, ctx, sx, sy, d, PROPS) for (sx, sy, d) in pts]
        c.add('shortcuts', 1)
        jobs.append((c, ctx, pts, a, b, meta, fn, doc))
    core.run_cases('asan', [j[0] for j in jobs], PID)
    inside_near = 0
    classes = {}
    pending = []
    for (c, ctx, pts, a, b, meta, fn, doc) in jobs:
        if c.crash:
            V.crash(c, fn)
        r1, r2 = c.results[0], c.results[1]
        if r1[0] != r2[0]:
            V.violation('construction-outcome-differs', {'world': fn, 'normal': r1, 'noshortcuts': r2})
            continue
        if not ok(r1):
            V.coverage['rejected_worlds'] = V.coverage.get('rejected_worlds', 0) + 1
            if len(V.notes) < 6:
                V.notes.append(r1[1][:120])
            continue
        for p, ia, ib in zip(pts, a, b):
            ra, rb = c.results[ia], c.results[ib]
            if ra[0] == 'missing' or rb[0] == 'missing':
                continue
            V.count()
            detail = {'world': fn, 'class': meta['class'], 'point': p, 'feature': doc['features'][0], 'normal': ra, 'noshortcuts': rb}
            if ra[0] != rb[0]:
                V.violation('outcome-differs:%s' % meta['class'].split(':')[0], detail)
                continue
            if not ok(ra):
                continue
            va, vb = vals(ra), vals(rb)
            if vb[0] >= 0:
                V.nontrivial((fn, p))
                classes[meta['class']] = classes.get(meta['class'], 0) + 1
            if core.same_bits(va, vb):
                continue
            if va[0] != vb[0]:
                key = 'shortcut-discards-a-point-of-the-feature' if (vb[0] >= 0 and va[0] < 0) else 'shortcut-adds-a-point-to-the-feature'
                if meta['class'].startswith('area'):
                    # a point on a shared triangle edge/node may be served by either triangle: the interpolated depth differs by
                    # rounding, which matters only if the query depth sits on it. Decided by the margin pass below.
                    pending.append(('%s:%s' % (key, meta['class']), detail, fn, ctx, p))
                else:
                    V.violation('%s:%s' % (key, meta['class']), detail)
                continue
            if meta['class'].startswith('area') and all(rel_close(x, y, 1e-10, 1e-300) for x, y in zip(va, vb)):
                V.coverage['surface_lookup_differences_within_1e-10'] = V.coverage.get('surface_lookup_differences_within_1e-10', 0) + 1
                continue
            if meta['class'].startswith('area'):
                pending.append(('values-differ:%s' % meta['class'], detail, fn, ctx, p))
            else:
                V.violation('values-differ:%s' % meta['class'], detail)
        V.sample({'world': fn, 'class': meta['class'], 'point': pts[0], 'normal': c.results[a[0]][1][:60], 'noshortcuts': c.results[b[0]][1][:60]}, limit=4)
    # margin pass: both worlds again at depth*(1 -+ 1e-9): excused iff the two worlds agree on either side and the sides differ
    # (the membership boundary passes within 1e-9 relative of the query depth)
    if pending:
        mcases = []
        for k, (key, detail, fn, ctx, p) in enumerate(pending):
            mc = core.Case('m%d' % k)
            world(mc, 1, core.workfile(PID, fn), noshortcuts=0)
            world(mc, 2, core.workfile(PID, fn), noshortcuts=1)
            lo, hi = p[2] * (1 - 1e-9), p[2] * (1 + 1e-9)
            ia = [q3(mc, 1, ctx, p[0], p[1], lo, PROPS), q3(mc, 1, ctx, p[0], p[1], hi, PROPS)]
            mc.add('shortcuts', 0)
            ib = [q3(mc, 2, ctx, p[0], p[1], lo, PROPS), q3(mc, 2, ctx, p[0], p[1], hi, PROPS)]
            mc.add('shortcuts', 1)
            mcases.append((mc, ia, ib))
        core.run_cases('asan', [m[0] for m in mcases], PID + '_margin', keep=True)
        excused = 0
        for (key, detail, fn, ctx, p), (mc, ia, ib) in zip(pending, mcases):
            rs = [mc.results[i] for i in ia + ib]
            good = all(ok(r) for r in rs)
            if good:
                t = [vals(r) for r in rs]

                def close(x, y):
                    return all(rel_close(a, b, 1e-10, 1e-300) for a, b in zip(x, y))
                if close(t[0], t[2]) and close(t[1], t[3]) and not close(t[0], t[1]):
                    excused += 1
                    continue
            V.violation(key, dict(detail, margin=[r[1][:40] for r in rs]))
        V.coverage['margin_excused'] = excused
        if excused > 0.005 * max(1, V.coverage['evaluations']):
            V.inconclusive.append('%d comparisons needed the margin rule (> 0.5 %%)' % excused)
    V.coverage['points_inside_per_class'] = classes
    return V.finish(floor_nontrivial=2000 if tier == 'quick' else 60000, floor_evaluations=10000)
