"""C03 - outside every feature the background state is returned; forced surface temperature (DESIGN.md C03)."""
import math
import random

from . import core, worldgen as wg
from .common import q3, world, ok, vals, rel_close

PID = 'C03'


def far_points(rng, w, n):
    t = w['truth']
    ctx = t['ctx']
    base = t['base']
    pts = []
    unit = ctx.unit()

    def clear_of_every_feature(sx, sy):
        # farther from every feature's own centre than three times its footprint size plus (line features) its length and thickness
        for ft in t['features']:
            cx, cy = ft['centre']
            reach = 3.0 * ft['size'] + ((ft.get('length', 0.0) + ft.get('thickness', 0.0)) / unit if ft['type'] in wg.LINE else 0.0)
            if ctx.sph:
                a1, a2 = math.radians(sy), math.radians(cy)
                dl = math.radians(sx - cx)
                cosd = math.sin(a1) * math.sin(a2) + math.cos(a1) * math.cos(a2) * math.cos(dl)
                dist = math.degrees(math.acos(max(-1.0, min(1.0, cosd))))
                if dist < reach + 5.0:
                    return False
            elif math.hypot(sx - cx, sy - cy) < reach + 1e5:
                return False
        return True
    tries = 0
    while len(pts) < n and tries < 40 * n:
        tries += 1
        if ctx.sph:
            sx = ((base[0] + 180.0 + rng.uniform(-70, 70) + 180.0) % 360.0) - 180.0
            sy = rng.uniform(-80, 80)
        else:
            a = rng.uniform(0, 2 * math.pi)
            r = rng.uniform(25, 60) * max(base[2], 1e6)
            sx = base[0] + r * math.cos(a)
            sy = base[1] + r * math.sin(a)
        if not clear_of_every_feature(sx, sy):
            continue
        d = rng.choice([0.0, -rng.uniform(0, 1e5), 1.0e6, rng.uniform(0, 1e6), rng.uniform(0, 3e5), 1e-9])
        pts.append((sx, sy, d))
    return pts


def main(tier, seed, replay):
    core.build('asan')
    rng = random.Random(seed * 104729 + 3)
    V = core.Verdict(PID, tier, seed)
    V.coverage['rule'] = ('generated worlds (both coordinate systems, random global constants and gravity incl. zero/negative, empty feature lists); points constructed far outside every '
                          'feature plus every sampled point whose observed tag is -1; depths incl. 0, negative, 1e6 m; forced surface temperature checked at depth 0 for single and batched '
                          'requests, inside features as well; non-trivial = distinct (world with non-default constants, depth class) pairs')
    nworlds = 200 if tier == 'quick' else 4000
    cases = []
    plans = []
    proplists = [[(1, 0, 0)], [(1, 0, 0), (4, 0, 0)], [(4, 0, 0), (2, 0, 0), (2, 3, 0), (5, 0, 0), (3, 1, 2), (1, 0, 0)], [(3, 0, 3), (1, 0, 0), (2, 1, 0), (4, 0, 0)],
                 [(5, 0, 0), (4, 0, 0), (1, 0, 0)]]
    for i in range(nworlds):
        wrng = random.Random(rng.getrandbits(48))
        opts = {'nfeatures': (0, 4) if wrng.random() < 0.85 else 0, 'force_surface': wrng.random() < 0.4}
        w = wg.gen_world(wrng, opts)
        g = w['truth']['globals']
        if wrng.random() < 0.1:
            g['g'] = wrng.choice([0.0, -9.81, -1.5])
            w['json']['gravity model'] = {'model': 'uniform', 'magnitude': g['g']}
        fn = 'w%d.wb' % i
        c = core.Case(i, files={fn: wg.dumps(w['json'])})
        world(c, 1, core.workfile(PID, fn))
        ctx = w['truth']['ctx']
        plan = []
        for (sx, sy, d) in far_points(wrng, w, 25):
            props = wrng.choice(proplists)
            plan.append(('far', (sx, sy, d), props, q3(c, 1, ctx, sx, sy, d, props)))
        for (sx, sy, d) in wg.sample_points(wrng, w, 25):
            props = wrng.choice(proplists[1:])
            plan.append(('any', (sx, sy, d), props, q3(c, 1, ctx, sx, sy, d, props)))
        if g['force']:
            for (sx, sy, d) in wg.sample_points(wrng, w, 12, p_inside=0.9):
                for props in (proplists[0], wrng.choice(proplists[1:])):
                    plan.append(('surface', (sx, sy, 0.0), props, q3(c, 1, ctx, sx, sy, 0.0, props)))
        cases.append(c)
        plans.append((w, c, plan, fn))
    core.run_cases('asan', cases, PID)
    for (w, c, plan, fn) in plans:
        g = w['truth']['globals']
        if c.crash:
            V.crash(c, fn)
        if not ok(c.results[0]):
            if c.results[0][0] == 'ex':
                V.notes.append('world rejected: %s' % c.results[0][1][:100]) if len(V.notes) < 5 else None
            continue
        nondefault = any(k in w['json'] for k in ('potential mantle temperature', 'thermal expansion coefficient', 'specific heat', 'gravity model'))
        for (kind, (sx, sy, d), props, idx) in plan:
            res = c.results[idx]
            if res[0] == 'missing':
                continue
            V.count()
            if not ok(res):
                V.violation('query-threw-outside-features' if kind == 'far' else 'query-threw', {'world': fn, 'point': (sx, sy, d), 'res': res}) if kind == 'far' else None
                continue
            v = vals(res)
            if len(v) != sum(core.block_sizes(props)):
                V.violation('wrong-length', {'world': fn, 'props': props, 'len': len(v)})
                continue
            blocks = dict()
            for p, blk in zip(props, core.split_blocks(v, props)):
                blocks.setdefault(p[0], []).append((p, blk))
            tag = blocks[4][0][1][0] if 4 in blocks else None
            at_surface = abs(d) < 2 * 2.220446049250313e-16
            if kind == 'surface' or (g['force'] and at_surface):
                for p, blk in blocks.get(1, []):
                    if blk[0] != g['Ts']:
                        V.violation('forced-surface-temperature-not-returned:%s' % ('single' if len(props) == 1 else 'batched'),
                                    {'world': fn, 'point': (sx, sy, d), 'props': props, 'T': blk[0], 'Ts': g['Ts'], 'tag': tag})
                    elif tag is not None and tag >= 0:
                        V.nontrivial(('surface-inside', fn, sx, sy))
                if kind == 'surface':
                    continue
            if kind == 'far' and tag is not None and tag != -1:
                V.violation('far-point-has-a-tag', {'world': fn, 'point': (sx, sy, d), 'tag': tag})
                continue
            if kind == 'any' and tag != -1:
                continue
            # background expected
            expT = g['Ts'] if (g['force'] and at_surface) else g['Tp'] * math.exp(((g['alpha'] * g['g']) / g['cp']) * d)
            for p, blk in blocks.get(1, []):
                if not rel_close(blk[0], expT, 1e-12):
                    V.violation('background-temperature-wrong', {'world': fn, 'point': (sx, sy, d), 'T': blk[0], 'expected': expT, 'globals': g, 'kind': kind})
            for p, blk in blocks.get(2, []):
                if blk[0] != 0.0:
                    V.violation('background-composition-nonzero', {'world': fn, 'point': (sx, sy, d), 'composition': p[1], 'value': blk[0], 'kind': kind})
            for p, blk in blocks.get(3, []):
                if any(x != 0.0 for x in blk):
                    V.violation('background-grains-nonzero', {'world': fn, 'point': (sx, sy, d), 'grains': p, 'value': blk, 'kind': kind})
            for p, blk in blocks.get(5, []):
                if any(x != 0.0 for x in blk):
                    V.violation('background-velocity-nonzero', {'world': fn, 'point': (sx, sy, d), 'value': blk, 'kind': kind})
            dclass = 'zero' if d == 0 else ('neg' if d < 0 else ('deep' if d >= 1e6 else 'mid'))
            if nondefault:
                V.nontrivial((fn, dclass, kind))
            V.sample({'world': fn, 'globals': g, 'point': (sx, sy, d), 'props': props, 'values': v[:6], 'expected_T': expT})
    return V.finish(floor_nontrivial=100 if tier == 'quick' else 1000, floor_evaluations=3000)
