"""C03 - outside every feature the background state is returned; forced surface temperature (DESIGN.md C03)."""
import math
import random

from . import core, worldgen as wg
from .common import q3, q3xyz, q2, world, ok, vals, rel_close
from .check_C09 import mapped_point
from . import check_C04

PID = 'C03'


def clearance(w):
    t = w['truth']
    ctx = t['ctx']
    unit = ctx.unit()

    def clear_of_every_feature(sx, sy):
        # farther from every feature's own centre than three times its footprint size plus (line features) its length and thickness
        for ft in t['features']:
            cx, cy = ft['centre']
            reach = 3.0 * ft['size'] + ((ft.get('length', 0.0) + ft.get('thickness', 0.0)) / unit if ft['type'] in wg.LINE else 0.0)
            if ctx.sph:
                a1, a2 = math.radians(sy), math.radians(cy)
                dl = math.radians(sx - cx)
                cosd = math.sin(a1) * math.sin(a2) + math.cos(a1) * math.cos(a2) * math.cos(dl)
                dist = math.degrees(math.acos(max(-1.0, min(1.0, cosd))))
                if dist < reach + 5.0:
                    return False
            elif math.hypot(sx - cx, sy - cy) < reach + 1e5:
                return False
        return True
    return clear_of_every_feature


def far_points_2d(rng, w, n):
    """2D queries (x, z, depth) whose mapped point (statement of C09) is far from every feature: along the section line, both ways"""
    t = w['truth']
    ctx = t['ctx']
    cross = t['cross']
    clear = clearance(w)
    out = []
    tries = 0
    while len(out) < n and tries < 40 * n:
        tries += 1
        d = rng.choice([0.0, 1.0e6, rng.uniform(0, 1e6), rng.uniform(0, 3e5), 1e-9])
        if ctx.sph:
            theta = rng.choice([-1, 1]) * math.radians(rng.uniform(15, 130))
            r = ctx.R - d
            x2, z2 = r * math.cos(theta), r * math.sin(theta)
        else:
            x2 = rng.choice([-1, 1]) * rng.uniform(25, 60) * max(t['base'][2], 1e6)
            z2 = ctx.H - d
        _, (sx, sy), _ = mapped_point(ctx, cross, x2, z2)
        if ctx.sph and not (-85.0 < sy < 85.0):
            continue
        if not clear(sx, sy):
            continue
        out.append((x2, z2, d, (sx, sy)))
    return out


def far_points(rng, w, n):
    t = w['truth']
    ctx = t['ctx']
    base = t['base']
    pts = []
    clear_of_every_feature = clearance(w)
    tries = 0
    while len(pts) < n and tries < 40 * n:
        tries += 1
        if ctx.sph:
            sx = ((base[0] + 180.0 + rng.uniform(-70, 70) + 180.0) % 360.0) - 180.0
            sy = rng.uniform(-80, 80)
        else:
            a = rng.uniform(0, 2 * math.pi)
            r = rng.uniform(25, 60) * max(base[2], 1e6)
            sx = base[0] + r * math.cos(a)
            sy = base[1] + r * math.sin(a)
        if not clear_of_every_feature(sx, sy):
            continue
        d = rng.choice([0.0, -rng.uniform(0, 1e5), 1.0e6, rng.uniform(0, 1e6), rng.uniform(0, 3e5), 1e-9])
        pts.append((sx, sy, d))
    return pts


def main(tier, seed, replay):
    core.build('asan')
    rng = random.Random(seed * 104729 + 3)
    V = core.Verdict(PID, tier, seed)
    V.coverage['rule'] = ('generated worlds (both coordinate systems, random global constants and gravity incl. zero/negative, empty feature lists); points constructed far outside every '
                          'feature (3D entry point; on worlds with a cross section also the 2D entry points properties/temperature along the section line) plus every sampled point whose observed tag is -1; depths incl. 0, negative, 1e6 m; single-feature worlds with the exact footprint oracles of C04 (points the oracle puts outside, mostly right next to the boundary, must show the background in every property); forced surface temperature checked at depth 0 for single and batched '
                          'requests, inside features as well; non-trivial = distinct (world with non-default constants, depth class) pairs')
    nworlds = 200 if tier == 'quick' else 4000
    cases = []
    plans = []
    proplists = [[(1, 0, 0)], [(1, 0, 0), (4, 0, 0)], [(4, 0, 0), (2, 0, 0), (2, 3, 0), (5, 0, 0), (3, 1, 2), (1, 0, 0)], [(3, 0, 3), (1, 0, 0), (2, 1, 0), (4, 0, 0)],
                 [(5, 0, 0), (4, 0, 0), (1, 0, 0)]]
    for i in range(nworlds):
        wrng = random.Random(rng.getrandbits(48))
        opts = {'nfeatures': (0, 4) if wrng.random() < 0.85 else 0, 'force_surface': wrng.random() < 0.4, 'cross_section': wrng.random() < 0.4}
        w = wg.gen_world(wrng, opts)
        g = w['truth']['globals']
        if wrng.random() < 0.1:
            g['g'] = wrng.choice([0.0, -9.81, -1.5])
            w['json']['gravity model'] = {'model': 'uniform', 'magnitude': g['g']}
        fn = 'w%d.wb' % i
        c = core.Case(i, files={fn: wg.dumps(w['json'])})
        world(c, 1, core.workfile(PID, fn))
        ctx = w['truth']['ctx']
        plan = []
        for (sx, sy, d) in far_points(wrng, w, 25):
            props = wrng.choice(proplists)
            plan.append(('far', (sx, sy, d), props, q3(c, 1, ctx, sx, sy, d, props)))
        for (sx, sy, d) in wg.sample_points(wrng, w, 25):
            props = wrng.choice(proplists[1:])
            plan.append(('any', (sx, sy, d), props, q3(c, 1, ctx, sx, sy, d, props)))
        if w['truth'].get('cross'):
            # the 2D entry points: the background state along the section line, far from every feature
            for (x2, z2, d, spos) in far_points_2d(wrng, w, 12):
                props = wrng.choice(proplists)
                plan.append(('far2d', (spos[0], spos[1], d), props, q2(c, 1, x2, z2, d, props)))
                plan.append(('far2d', (spos[0], spos[1], d), [(1, 0, 0)], c.add('t2', 1, core.hx(x2), core.hx(z2), core.hx(d))))
            # ... and near the features: wherever the 3D entry point reports tag -1 at the mapped point, the 2D entry point owes the background
            base = w['truth']['base']
            for _ in range(16):
                d = wrng.choice([0.0, wrng.uniform(0, 3e5), wrng.uniform(0, 1e6)])
                if ctx.sph:
                    theta = math.radians(wrng.uniform(-3, 3) * max(base[2], 5.0))
                    x2, z2 = (ctx.R - d) * math.cos(theta), (ctx.R - d) * math.sin(theta)
                else:
                    x2, z2 = wrng.uniform(-3, 3) * max(base[2], 5e5), ctx.H - d
                xyz, spos, _ = mapped_point(ctx, w['truth']['cross'], x2, z2)
                if ctx.sph and not (-85.0 < spos[1] < 85.0):
                    continue
                props = wrng.choice(proplists[1:])
                i3 = q3xyz(c, 1, xyz[0], xyz[1], xyz[2], d, [(4, 0, 0)])
                plan.append(('any2d', (spos[0], spos[1], d), props, (q2(c, 1, x2, z2, d, props), i3)))
        if g['force']:
            for (sx, sy, d) in wg.sample_points(wrng, w, 12, p_inside=0.9):
                for props in (proplists[0], wrng.choice(proplists[1:])):
                    plan.append(('surface', (sx, sy, 0.0), props, q3(c, 1, ctx, sx, sy, 0.0, props)))
        cases.append(c)
        plans.append((w, c, plan, fn))
    # the exact-footprint family: single-feature worlds with the exact membership oracles of C04 (closed polygon x closed, possibly
    # affine, depth bounds; plume ellipses with head): wherever the oracle says "outside", every property must be the background value
    # - observed through temperature, composition, grains, velocity and tag, right next to the feature's boundary
    nexact = 320 if tier == 'quick' else 9600
    xprops = [(1, 0, 0), (2, 0, 0), (3, 0, 2), (5, 0, 0), (4, 0, 0)]
    xjobs = []
    for i in range(nexact):
        wrng = random.Random(rng.getrandbits(48))
        sph = wrng.random() < 0.45
        if i % 4 == 3:
            doc, t = check_C04.plume_world(wrng, sph, dateline=sph and wrng.random() < 0.3)
            pts = check_C04.plume_points(wrng, t, 60)
        else:
            doc, t = check_C04.area_world(wrng, sph, wrng.choice(['random', 'random', 'lattice', 'dateline' if sph else 'random']))
            pts = check_C04.area_points(wrng, t, 60)
        f = doc['features'][0]
        f['temperature models'] = [{'model': 'uniform', 'temperature': 111.0}]
        if f['model'] != 'plume':
            f['velocity models'] = [{'model': 'uniform raw', 'velocity': [0.25, -0.5, 0.125]}]
        f['grains models'] = [{'model': 'uniform', 'compositions': [0], 'rotation matrices': [[[0, 1, 0], [1, 0, 0], [0, 0, -1]]], 'grain sizes': [0.5]}]
        fn = 'x%d.wb' % i
        c = core.Case('x%d' % i, files={fn: wg.dumps(doc)})
        world(c, 1, core.workfile(PID, fn))
        plan = [(p, q3(c, 1, t['ctx'], p[0], p[1], p[2], xprops)) for p in pts if p[3] is False]
        g = {'Tp': doc.get('potential mantle temperature', 1600.0), 'alpha': doc.get('thermal expansion coefficient', 3.5e-5), 'cp': doc.get('specific heat', 1250.0),
             'g': doc.get('gravity model', {}).get('magnitude', 9.81)}
        xjobs.append((c, t, plan, fn, g))
        cases.append(c)
    core.run_cases('asan', cases, PID)
    for (c, t, plan, fn, g) in xjobs:
        if c.crash:
            V.crash(c, fn)
        if not ok(c.results[0]):
            V.notes.append('exact-footprint world rejected: %s' % c.results[0][1][:100]) if len(V.notes) < 5 else None
            continue
        for (p, idx) in plan:
            res = c.results[idx]
            if res[0] == 'missing' or not ok(res):
                continue
            V.count()
            v = vals(res)
            blocks = core.split_blocks(v, xprops)
            d = p[2]
            expT = g['Tp'] * math.exp(((g['alpha'] * g['g']) / g['cp']) * d)
            bad = []
            if not rel_close(blocks[0][0], expT, 1e-12):
                bad.append('temperature')
            if blocks[1][0] != 0.0:
                bad.append('composition')
            if any(x != 0.0 for x in blocks[2]):
                bad.append('grains')
            if any(x != 0.0 for x in blocks[3]):
                bad.append('velocity')
            if blocks[4][0] != -1.0:
                bad.append('tag')
            if bad:
                V.violation('outside-the-exact-footprint-but-not-the-background-state:%s:%s' % (t.get('ftype', 'plume'), '+'.join(bad)),
                            {'world': fn, 'point': p[:3], 'values': v, 'expected_T': expT, 'truth': {k: t[k] for k in t if k != 'ctx'}})
            elif p[4]:
                V.nontrivial(('exact-outside', fn, p[0], p[1], p[2]))
    for (w, c, plan, fn) in plans:
        g = w['truth']['globals']
        if c.crash:
            V.crash(c, fn)
        if not ok(c.results[0]):
            if c.results[0][0] == 'ex':
                V.notes.append('world rejected: %s' % c.results[0][1][:100]) if len(V.notes) < 5 else None
            continue
        nondefault = any(k in w['json'] for k in ('potential mantle temperature', 'thermal expansion coefficient', 'specific heat', 'gravity model'))
        for (kind, (sx, sy, d), props, idx) in plan:
            tag3 = None
            if kind == 'any2d':
                r3 = c.results[idx[1]]
                idx = idx[0]
                if not ok(r3):
                    continue
                tag3 = vals(r3)[0]
                if tag3 != -1:
                    continue        # inside a feature: C09's business
            res = c.results[idx]
            if res[0] == 'missing':
                continue
            V.count()
            if not ok(res):
                V.violation('query-threw-outside-features' + (':2d' if kind == 'far2d' else ''), {'world': fn, 'point': (sx, sy, d), 'res': res}) if kind in ('far', 'far2d') else None
                continue
            v = vals(res)
            if len(v) != sum(core.block_sizes(props)):
                V.violation('wrong-length', {'world': fn, 'props': props, 'len': len(v)})
                continue
            blocks = dict()
            for p, blk in zip(props, core.split_blocks(v, props)):
                blocks.setdefault(p[0], []).append((p, blk))
            tag = blocks[4][0][1][0] if 4 in blocks else None
            at_surface = abs(d) < 2 * 2.220446049250313e-16
            if kind == 'surface' or (g['force'] and at_surface):
                for p, blk in blocks.get(1, []):
                    if blk[0] != g['Ts']:
                        V.violation('forced-surface-temperature-not-returned:%s' % ('single' if len(props) == 1 else 'batched'),
                                    {'world': fn, 'point': (sx, sy, d), 'props': props, 'T': blk[0], 'Ts': g['Ts'], 'tag': tag})
                    elif tag is not None and tag >= 0:
                        V.nontrivial(('surface-inside', fn, sx, sy))
                if kind == 'surface':
                    continue
            if kind in ('far', 'far2d') and tag is not None and tag != -1:
                V.violation('far-point-has-a-tag' + (':2d' if kind == 'far2d' else ''), {'world': fn, 'point': (sx, sy, d), 'tag': tag})
                continue
            if kind == 'any2d' and tag != -1:
                V.violation('2d-entry-point-reports-a-feature-where-the-3d-entry-point-reports-none', {'world': fn, 'mapped_surface_position': (sx, sy), 'depth': d, 'tag2d': tag, 'props': props})
                continue
            if kind == 'any' and tag != -1:
                continue
            # background expected
            expT = g['Ts'] if (g['force'] and at_surface) else g['Tp'] * math.exp(((g['alpha'] * g['g']) / g['cp']) * d)
            for p, blk in blocks.get(1, []):
                if not rel_close(blk[0], expT, 1e-12):
                    V.violation('background-temperature-wrong', {'world': fn, 'point': (sx, sy, d), 'T': blk[0], 'expected': expT, 'globals': g, 'kind': kind})
            for p, blk in blocks.get(2, []):
                if blk[0] != 0.0:
                    V.violation('background-composition-nonzero', {'world': fn, 'point': (sx, sy, d), 'composition': p[1], 'value': blk[0], 'kind': kind})
            for p, blk in blocks.get(3, []):
                if any(x != 0.0 for x in blk):
                    V.violation('background-grains-nonzero', {'world': fn, 'point': (sx, sy, d), 'grains': p, 'value': blk, 'kind': kind})
            for p, blk in blocks.get(5, []):
                if any(x != 0.0 for x in blk):
                    V.violation('background-velocity-nonzero', {'world': fn, 'point': (sx, sy, d), 'value': blk, 'kind': kind})
            dclass = 'zero' if d == 0 else ('neg' if d < 0 else ('deep' if d >= 1e6 else 'mid'))
            if nondefault:
                V.nontrivial((fn, dclass, kind))
            V.sample({'world': fn, 'globals': g, 'point': (sx, sy, d), 'props': props, 'values': v[:6], 'expected_T': expT})
    return V.finish(floor_nontrivial=100 if tier == 'quick' else 1000, floor_evaluations=3000)
