"""Independent re-statement of the ridge kernel (Utilities::calculate_ridge_distance_and_spreading) as its comments and the
documentation of the cooling models describe it: the relevant ridge is the first one whose transform fault has the point on the
ridge's side, the foot of the point on each ridge segment is the planar (x,y / lon,lat) orthogonal projection clamped to the
segment, velocities are interpolated linearly at the foot, the distance is measured by the coordinate system (great circle in
spherical worlds), and the nearest foot wins. In spherical worlds the library also projects ONE 360 degree alias of the point
(+360 for negative, -360 for positive longitudes): `alias='library'` reproduces that rule (the known finding of C08 lives exactly
in the difference between that and `alias='both'`). Standard library only."""
import math

PI = math.pi


def gc_distance(r, lon1, lat1, lon2, lat2):
    """great circle distance, haversine form (accurate for small angles)"""
    sdlat = math.sin(0.5 * (lat2 - lat1))
    sdlon = math.sin(0.5 * (lon2 - lon1))
    a = sdlat * sdlat + math.cos(lat1) * math.cos(lat2) * sdlon * sdlon
    a = min(1.0, max(0.0, a))
    return r * 2.0 * math.atan2(math.sqrt(a), math.sqrt(1.0 - a))


def _side(t0, t1, p):
    return (t1[0] - t0[0]) * (p[1] - t0[1]) - (t1[1] - t0[1]) * (p[0] - t0[0]) < 0


def relevant_ridge(ridges, p):
    rel = 0
    if len(ridges[0]) > 1:
        rel = 0
        while rel < len(ridges) - 1:
            t0 = ridges[rel + 1][0]
            t1 = ridges[rel][-1]
            ref = ridges[rel][0]
            if _side(t0, t1, ref) == _side(t0, t1, p):
                break
            rel += 1
    return rel


def _foot(p, a, b):
    vx, vy = b[0] - a[0], b[1] - a[1]
    c1 = (p[0] - a[0]) * vx + (p[1] - a[1]) * vy
    c = vx * vx + vy * vy
    if c1 <= 0:
        return 0.0, a
    if c <= c1:
        return 1.0, b
    t = c1 / c
    return t, (a[0] + t * vx, a[1] + t * vy)


def candidates(ridges, vel, sub, p, spherical, r=None, alias='library'):
    """all candidate feet on the relevant ridge: list of dicts(distance, spreading, subducting, segment, alias, t) in the order the
    library visits them (segment by segment; the point itself first, then its alias)"""
    rel = relevant_ridge(ridges, p)
    ridge = ridges[rel]
    out = []
    if spherical:
        if alias == 'library':
            shifts = [0.0, 2 * PI if p[0] < 0 else -2 * PI]
        elif alias == 'both':
            shifts = [0.0, 2 * PI, -2 * PI]
        else:
            shifts = [0.0]
    else:
        shifts = [0.0]
    for i in range(len(ridge) - 1):
        a, b = ridge[i], ridge[i + 1]
        v0, v1 = vel[rel][i], vel[rel][i + 1]
        if len(sub[0]) > 1:
            s0, s1 = sub[rel][i], sub[rel][i + 1]
        else:
            s0 = s1 = sub[0][0]
        for sh in shifts:
            q = (p[0] + sh, p[1])
            t, ft = _foot(q, a, b)
            if spherical:
                d = gc_distance(r, p[0], p[1], ft[0], ft[1])
            else:
                d = math.hypot(p[0] - ft[0], p[1] - ft[1])
            out.append({'distance': d, 'spreading': v0 + (v1 - v0) * t, 'subducting': s0 + (s1 - s0) * t, 'segment': i, 'alias': sh, 't': t,
                        'foot': ft, 'ridge': rel})
    return out


def best(cands):
    """the winner in the library's visiting order (strictly smaller replaces) and the runner-up distance"""
    b = None
    for c in cands:
        if b is None or c['distance'] < b['distance']:
            b = c
    others = [c['distance'] for c in cands if c is not b]
    return b, (min(others) if others else float('inf'))
