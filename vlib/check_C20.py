"""C20 - cooling models stay inside their physical envelope (DESIGN.md C20)."""
import math
import random

from . import core, worldgen as wg, slabref
from .common import world, ok, vals, q3, q3xyz
from .check_C05 import adiabat, plate_series, YEAR
from .check_C06 import gen_geometry

PID = 'C20'
PI = math.pi
PROPS = [(1, 0, 0), (4, 0, 0)]


def gen_oceanic(rng, i):
    sph = rng.random() < 0.3
    ctx = wg.gen_ctx(rng, sph, exotic=False)
    doc = {}
    g = wg.gen_globals(rng, ctx, doc, exotic=True, force_surface=False)
    if sph:
        cx, cy, hw = wg.R(rng.uniform(-140, 140)), 0.0, wg.R(rng.uniform(8, 20))
    else:
        cx, cy, hw = wg.num(rng, -1e6, 1e6), wg.num(rng, -1e6, 1e6), wg.num(rng, 5e5, 3e6)
    poly = [(wg.R(cx - hw), wg.R(cy - hw)), (wg.R(cx + hw), wg.R(cy - hw)), (wg.R(cx + hw), wg.R(cy + hw)), (wg.R(cx - hw), wg.R(cy + hw))]
    name = rng.choice(['half space model', 'plate model', 'plate model constant age'])
    L = wg.num(rng, 5e4, 2e5)
    Tt = wg.num(rng, 250, 400)
    Tb = wg.num(rng, 1300, 2000) if rng.random() < 0.7 else -1.0
    m = {'model': name, 'max depth': L, 'top temperature': Tt}
    if Tb > 0 or rng.random() < 0.5:
        m['bottom temperature'] = Tb
    spec = {'name': name, 'L': L, 'Tt': Tt, 'Tb': Tb, 'g': g, 'sph': sph}
    if name == 'plate model constant age':
        age = rng.choice([wg.num(rng, 1e3, 1e5), wg.num(rng, 1e5, 1e7), wg.num(rng, 1e7, 3e8)])
        spec['age_yr'] = m['plate age'] = age
    else:
        u = wg.num(rng, 0.002, 0.2)
        spec['u'] = m['spreading velocity'] = u
        # ridge: a straight line through the footprint (cartesian: any azimuth; spherical: a meridian)
        if sph and name == 'half space model' and rng.random() < 0.5:
            # an oblique ridge with a spreading velocity per ridge point, the plate across the date line (raw longitudes beyond +-180 on one
            # side, so that the nearest ridge point is reached through the longitude alias): only the envelope, the attained top temperature
            # and monotonicity in depth are judged for these (no closed form for the age is assumed)
            cx = wg.R(rng.choice([-1, 1]) * rng.uniform(168, 180))
            lon_r = wg.R(cx + rng.uniform(-0.8, 0.8) * hw)
            tilt = wg.R(rng.uniform(2, 8) * rng.choice([-1, 1]))
            half = wg.R(rng.uniform(8, 40))
            ridge = [[[wg.R(lon_r - tilt), -half], [wg.R(lon_r + tilt), half]]]
            v0, v1 = wg.num(rng, 0.01, 0.1), wg.num(rng, 0.01, 0.1)
            spec['u'] = 0.5 * (v0 + v1)
            m['spreading velocity'] = [[0, [[v0, v1]]]]
            spec['ridge'] = ('oblique', lon_r)
            spec['variable_u'] = True
            poly = [(wg.R(cx - hw), wg.R(cy - hw)), (wg.R(cx + hw), wg.R(cy - hw)), (wg.R(cx + hw), wg.R(cy + hw)), (wg.R(cx - hw), wg.R(cy + hw))]
        elif sph:
            lon_r = wg.R(cx + rng.uniform(-0.8, 0.8) * hw)
            ridge = [[[lon_r, -70.0], [lon_r, 70.0]]]
            spec['ridge'] = ('meridian', lon_r)
        else:
            az = rng.uniform(0, PI)
            rx, ry = wg.R(cx + rng.uniform(-0.8, 0.8) * hw), wg.R(cy + rng.uniform(-0.8, 0.8) * hw)
            LL = 30 * hw
            a = (wg.R(rx - LL * math.cos(az)), wg.R(ry - LL * math.sin(az)))
            b = (wg.R(rx + LL * math.cos(az)), wg.R(ry + LL * math.sin(az)))
            if rng.random() < 0.4:
                mid = (wg.R(rx), wg.R(ry))
                ridge = [[list(a), list(mid), list(b)]]          # three collinear points
            else:
                ridge = [[list(a), list(b)]]
            spec['ridge'] = ('line', a, b)
        m['ridge coordinates'] = ridge
    f = {'model': 'oceanic plate', 'name': 'plate', 'coordinates': [list(p) for p in poly], 'max depth': wg.R(L * rng.choice([1.0, 1.0, 1.5])), 'temperature models': [m]}
    listed = []
    if rng.random() < 0.4:
        # the plate thickness as a surface: L at the corners, thinner at one to three listed interior points; the same surface for the
        # feature and the model, so that the tag says where the model applies (depth <= local thickness)
        surf = [[L]]
        for _ in range(rng.randint(1, 3)):
            px, py = wg.R(cx + rng.uniform(-0.7, 0.7) * hw), (0.0 if sph else wg.R(cy + rng.uniform(-0.7, 0.7) * hw))
            if sph:
                py = wg.R(rng.uniform(-0.5, 0.5) * hw)
            surf.append([wg.R(L * rng.uniform(0.3, 0.95)), [[px, py]]])
            listed.append((px, py))
        f['max depth'] = surf
        m['max depth'] = surf
        spec['variable_thickness'] = True
    doc['features'] = [f]
    fn = 'o%d.wb' % i
    c = core.Case('o%d' % i, files={fn: wg.dumps(doc)})
    world(c, 1, core.workfile(PID, fn))
    profiles = []
    fd = f['max depth'] if not listed else L
    depth_list = sorted(set([0.0, L, min(L, fd)] + [wg.R(rng.uniform(0, min(L, fd))) for _ in range(14)] + [min(L, fd) * x for x in (0.001, 0.01, 0.05)]))
    depth_list = [d for d in depth_list if d <= min(L, fd)]
    for ip in range(6 + len(listed)):
        # a surface point inside the plate (and the listed points of a thickness surface)
        if ip >= 6:
            sx, sy = listed[ip - 6]
            dist = None
            if sph and 'ridge' in spec:
                # great circle distance to the ridge meridian (only used for the age in the truncation bound)
                dist = ctx.R * abs(math.asin(math.cos(math.radians(sy)) * math.sin(math.radians(sx - spec['ridge'][1]))))
            if not sph and 'ridge' in spec:
                (ax, ay), (bx, by) = spec['ridge'][1], spec['ridge'][2]
                dist = abs((sx - ax) * (by - ay) - (sy - ay) * (bx - ax)) / math.hypot(bx - ax, by - ay)
            prof = [(d, q3(c, 1, ctx, sx, sy, d, PROPS)) for d in depth_list]
            profiles.append({'kind': 'depth', 'surface': (sx, sy), 'dist': dist, 'probes': prof})
            continue
        elif sph:
            sx, sy = wg.R(rng.uniform(cx - 0.9 * hw, cx + 0.9 * hw)), 0.0
            dist = (ctx.R) * abs(math.radians(sx - spec['ridge'][1])) if 'ridge' in spec else None
        else:
            sx, sy = rng.uniform(cx - 0.9 * hw, cx + 0.9 * hw), rng.uniform(cy - 0.9 * hw, cy + 0.9 * hw)
            dist = None
            if 'ridge' in spec:
                (ax, ay), (bx, by) = spec['ridge'][1], spec['ridge'][2]
                dist = abs((sx - ax) * (by - ay) - (sy - ay) * (bx - ax)) / math.hypot(bx - ax, by - ay)
        prof = [(d, q3(c, 1, ctx, sx, sy, d, PROPS)) for d in depth_list]
        profiles.append({'kind': 'depth', 'surface': (sx, sy), 'dist': dist, 'probes': prof})
    if 'ridge' in spec and not spec.get('variable_u'):
        # away from the ridge at fixed depth, including points very close to the ridge (young ages)
        for _ in range(4):
            d = wg.R(rng.uniform(0.005, 0.9) * min(L, fd))
            probes = []
            if sph:
                lon_r = spec['ridge'][1]
                side = rng.choice([-1, 1])
                span = (cx + side * 0.9 * hw) - lon_r
                for frac in [1e-6, 1e-4, 1e-3, 0.01, 0.03, 0.1, 0.2, 0.4, 0.6, 0.8, 1.0]:
                    sx = lon_r + frac * span
                    probes.append((ctx.R * abs(math.radians(sx - lon_r)), q3(c, 1, ctx, sx, 0.0, d, PROPS)))
            else:
                (ax, ay), (bx, by) = spec['ridge'][1], spec['ridge'][2]
                ex, ey = (bx - ax) / math.hypot(bx - ax, by - ay), (by - ay) / math.hypot(bx - ax, by - ay)
                # foot of the footprint centre on the ridge, then walk along the normal while inside the footprint
                tpar = (cx - ax) * ex + (cy - ay) * ey
                fx, fy = ax + tpar * ex, ay + tpar * ey
                side = rng.choice([-1, 1])
                nx, ny = -ey * side, ex * side
                for frac in [1e-7, 1e-5, 1e-4, 1e-3, 0.01, 0.03, 0.1, 0.2, 0.4, 0.6, 0.8, 1.0]:
                    s = frac * 1.6 * hw
                    x, y = fx + nx * s, fy + ny * s
                    if abs(x - cx) < 0.95 * hw and abs(y - cy) < 0.95 * hw:
                        probes.append((s, q3(c, 1, ctx, x, y, d, PROPS)))
            profiles.append({'kind': 'distance', 'depth': d, 'probes': probes})
    return c, {'spec': spec, 'profiles': profiles, 'fn': fn, 'model': m, 'feature_max_depth': fd, 'ctx': ctx}


def check_oceanic(V, c, t):
    spec = t['spec']
    g = spec['g']
    if c.crash:
        V.crash(c, t['fn'])
    if not ok(c.results[0]):
        V.violation('world-rejected:oceanic', {'world': t['fn'], 'res': c.results[0], 'model': t['model']})
        return
    name = spec['name']
    L, Tt = spec['L'], spec['Tt']
    kappa = g['kappa']

    def Tb_at(d):
        return spec['Tb'] if spec['Tb'] >= 0 else adiabat(g, d)

    def truncation(d, dist):
        """bound on |T(100 terms) - T(exact)| for the series models: (Tb - Tt) * min(sum_{n>100} 2/(n pi) |term(n)|, 0.18 (Gibbs));
        0 for the half space model; None when the age is unknown"""
        Tb = Tb_at(d)
        if name == 'plate model constant age':
            age = spec['age_yr'] * 31557600.0
            f = lambda n: math.exp(-1.0 * n * n * PI * PI * kappa * age / (L * L))
        elif name == 'plate model':
            if dist is None:
                return None
            u = spec['u'] / YEAR
            age = dist / u
            Rn = (u * L) / (2.0 * kappa)
            f = lambda n: math.exp((Rn - math.sqrt(Rn * Rn + n * n * PI * PI)) * ((u * age) / L))
        else:
            return 0.0
        ssum = 0.0
        n = 101
        while n < 200000:
            term = f(n)
            ssum += 2.0 / (n * PI) * term
            if ssum >= 0.18:
                ssum = 0.18
                break
            if term < 1e-18:
                break
            n += 1
        return (Tb - Tt) * ssum

    def age_of(dist):
        if name == 'plate model constant age':
            return spec['age_yr']
        return None if dist is None else dist / spec['u']

    for prof in t['profiles']:
        Ts = []
        for (x, idx) in prof['probes']:
            res = c.results[idx]
            if not ok(res):
                V.violation('query-threw:oceanic:%s' % name, {'world': t['fn'], 'model': t['model'], 'res': res, 'cmd': c.cmds[idx]})
                Ts.append(None)
                continue
            v = vals(res)
            Ts.append(v[0] if v[1] >= 0 else None)
        for k, ((x, idx), T) in enumerate(zip(prof['probes'], Ts)):
            if T is None:
                continue
            V.count()
            if T != T or abs(T) == float('inf'):
                V.violation('temperature-not-finite:oceanic:%s' % name, {'world': t['fn'], 'model': t['model'], 'cmd': c.cmds[idx], 'T': T})
                continue
            d = x if prof['kind'] == 'depth' else prof['depth']
            dist = prof.get('dist') if prof['kind'] == 'depth' else x
            Tb = Tb_at(d)
            slack = 1e-9 * max(abs(Tb), abs(Tt))
            detail = {'world': t['fn'], 'model': t['model'], 'depth': d, 'ridge_distance': dist, 'age_yr': age_of(dist), 'T': T, 'Tt': Tt, 'Tb': Tb, 'cmd': c.cmds[idx]}
            if T < Tt - slack or T > Tb + slack:
                exc = max(Tt - T, T - Tb)
                tr = truncation(d, dist)
                if tr is not None and tr > 0 and exc <= tr * (1 + 1e-6) + slack:
                    V.violation('oceanic-%s:series-truncation:envelope' % name.replace(' ', '-'), dict(detail, excursion=exc, truncation_error=tr))
                else:
                    V.violation('envelope:oceanic:%s' % name, dict(detail, excursion=exc, truncation_error=tr))
            if prof['kind'] == 'depth':
                if d == 0.0 and (age_of(dist) is None or age_of(dist) > 0):
                    if abs(T - Tt) > slack:
                        V.violation('top-temperature-not-attained:oceanic:%s' % name, detail)
                    V.nontrivial(('top', t['fn'], prof['surface']))
                if d == L and name != 'half space model' and d <= t['feature_max_depth'] and not spec.get('variable_thickness'):
                    if abs(T - Tb) > 1e-9 * Tb + 1e-6:
                        V.violation('bottom-temperature-not-attained:oceanic:%s' % name, detail)
                    V.nontrivial(('bottom', t['fn'], prof['surface']))
            # monotonicity against the previous valid probe
            j = k - 1
            while j >= 0 and Ts[j] is None:
                j -= 1
            if j >= 0:
                Tprev = Ts[j]
                xprev = prof['probes'][j][0]
                if prof['kind'] == 'depth':
                    bad = T < Tprev - slack
                    what = 'temperature-decreases-with-depth'
                else:
                    bad = T > Tprev + slack
                    what = 'temperature-increases-with-age'
                if bad:
                    tr1 = truncation(d, dist)
                    dprev = xprev if prof['kind'] == 'depth' else d
                    distprev = dist if prof['kind'] == 'depth' else xprev
                    tr0 = truncation(dprev, distprev)
                    jump = abs(T - Tprev)
                    if tr1 is not None and tr0 is not None and (tr0 + tr1) > 0 and jump <= (tr0 + tr1) * (1 + 1e-6) + slack:
                        V.violation('oceanic-%s:series-truncation:monotonicity' % name.replace(' ', '-'), dict(detail, previous=(xprev, Tprev), truncation_errors=(tr0, tr1)))
                    else:
                        V.violation('%s:oceanic:%s' % (what, name), dict(detail, previous=(xprev, Tprev), truncation_errors=(tr0, tr1)))
                V.nontrivial((prof['kind'], t['fn'], k, x))
    V.sample({'world': t['fn'], 'model': t['model'], 'profile': [(x, c.results[i][1]) for (x, i) in t['profiles'][0]['probes'][:5]]}, limit=3)


# --------------------------------------------------------------------------------------------- linear models
def gen_linear(rng, i):
    sph = rng.random() < 0.3
    ctx = wg.gen_ctx(rng, sph, exotic=False)
    doc = {}
    g = wg.gen_globals(rng, ctx, doc, exotic=True, force_surface=False)
    ftype = rng.choice(['continental plate', 'oceanic plate', 'mantle layer'])
    if sph:
        cx, cy, hw = wg.R(rng.uniform(-140, 140)), wg.R(rng.uniform(-40, 40)), wg.R(rng.uniform(5, 15))
    else:
        cx, cy, hw = wg.num(rng, -1e6, 1e6), wg.num(rng, -1e6, 1e6), wg.num(rng, 3e5, 1e6)
    poly = [(wg.R(cx - hw), wg.R(cy - hw)), (wg.R(cx + hw), wg.R(cy - hw)), (wg.R(cx + hw), wg.R(cy + hw)), (wg.R(cx - hw), wg.R(cy + hw))]
    d0 = 0.0 if rng.random() < 0.4 else wg.num(rng, 1e3, 1e5)
    d1 = wg.R(d0 + wg.num(rng, 5e4, 3e5))
    r = rng.random()
    if r < 0.4:
        m0, m1 = 0.0, d1
    elif r < 0.7:
        m0, m1 = wg.R(d0 + rng.uniform(0.1, 0.4) * (d1 - d0)), wg.R(d0 + rng.uniform(0.6, 0.9) * (d1 - d0))
    else:
        m0, m1 = wg.R(max(0.0, d0 - rng.uniform(0, 0.5) * (d1 - d0))), wg.R(d1 + rng.uniform(0, 0.5) * (d1 - d0))
    Tt = wg.num(rng, 200, 1200)
    Tb = wg.num(rng, Tt, 2500)
    m = {'model': 'linear', 'top temperature': Tt, 'bottom temperature': Tb, 'max depth': m1}
    if m0 > 0 or rng.random() < 0.5:
        m['min depth'] = m0
    f = {'model': ftype, 'name': 'the feature', 'coordinates': [list(p) for p in poly], 'max depth': d1, 'temperature models': [m]}
    if d0 > 0:
        f['min depth'] = d0
    doc['features'] = [f]
    fn = 'l%d.wb' % i
    c = core.Case('l%d' % i, files={fn: wg.dumps(doc)})
    world(c, 1, core.workfile(PID, fn))
    top, bot = max(d0, m0), min(d1, m1)
    probes = []
    sx, sy = rng.uniform(cx - 0.8 * hw, cx + 0.8 * hw), rng.uniform(cy - 0.8 * hw, cy + 0.8 * hw)
    for d in sorted([top, bot] + [rng.uniform(top, bot) for _ in range(8)]):
        probes.append((d, q3(c, 1, ctx, sx, sy, d, PROPS)))
    return c, {'fn': fn, 'Tt': Tt, 'Tb': Tb, 'top': top, 'bot': bot, 'model': m, 'feature': (ftype, d0, d1), 'probes': probes}


def check_linear(V, c, t):
    if c.crash:
        V.crash(c, t['fn'])
    if not ok(c.results[0]):
        V.violation('world-rejected:linear', {'world': t['fn'], 'res': c.results[0]})
        return
    Tt, Tb = t['Tt'], t['Tb']
    for (d, idx) in t['probes']:
        res = c.results[idx]
        if not ok(res):
            continue
        v = vals(res)
        if v[1] < 0:
            continue
        V.count()
        T = v[0]
        if T != T or abs(T) == float('inf'):
            V.violation('temperature-not-finite:linear', {'world': t['fn'], 'model': t['model'], 'depth': d, 'T': T})
            continue
        slack = 1e-9 * Tb
        detail = {'world': t['fn'], 'feature': t['feature'], 'model': t['model'], 'depth': d, 'T': T, 'local_top': t['top'], 'local_bottom': t['bot']}
        key_f = t['feature'][0]
        if T < Tt - slack or T > Tb + slack:
            V.violation('envelope:linear:%s' % key_f, detail)
        if d == t['top']:
            if abs(T - Tt) > slack:
                V.violation('top-temperature-not-attained:linear:%s' % key_f, detail)
            V.nontrivial(('ltop', t['fn']))
        if d == t['bot']:
            if abs(T - Tb) > slack:
                V.violation('bottom-temperature-not-attained:linear:%s' % key_f, detail)
            V.nontrivial(('lbot', t['fn']))


# --------------------------------------------------------------------------------------------- slab models
def gen_slab(rng, i):
    f, t = gen_geometry(rng, 'subducting plate', False)
    # moderate geometry: dips below 80 degrees, no top truncation from the generator (set below)
    t['profile'] = slabref.build_profile(t['profile_spec'])
    if any(a0 > 85 or a1 > 85 for (_L, a0, a1) in t['profile_spec']) or t['d0'] > 5e4:
        return None
    ctx = wg.Ctx(False, 6371000.0, rng.choice([2.9e6, 6371000.0]))
    doc = {}
    g = wg.gen_globals(rng, ctx, doc, exotic=True, force_surface=False)
    thick = min(min(tt[0], tt[1]) for tt in t['table'])
    if thick < 1.5e4:
        return None       # the strongly widening bodies of C06's generator (a few km thick at the top) are a geometry matter; the thermal models are judged on plates of 15 km and more, as before
    name = rng.choice(['mass conserving', 'mass conserving', 'plate model'])
    f = dict(f)
    f.pop('composition models', None)
    if name == 'plate model':
        m = {'model': 'plate model', 'plate velocity': wg.num(rng, 0.01, 0.12)}
        if rng.random() < 0.5:
            m['max distance slab top'] = thick
        if rng.random() < 0.5:
            m['min distance slab top'] = wg.R(rng.uniform(0.05, 0.5) * thick)      # the model covers the lower part of the slab only
        if rng.random() < 0.4:
            m['adiabatic heating'] = rng.random() < 0.5
        above = 0.0
    else:
        above = wg.R(rng.uniform(0.2, 1.0) * thick)
        # distance trench - ridge from 100 km to 3000 km: plate ages at the trench from under a million to hundreds of million years
        # (young, slowly subducting slabs lose their anomaly within the slab length: the tip taper then works near the ambient temperature)
        rd = 10.0 ** rng.uniform(5.0, 6.5)
        for s in f['segments']:
            s['top truncation'] = [-above]
        m = {'model': 'mass conserving', 'spreading velocity': wg.num(rng, 0.01, 0.12), 'subducting velocity': wg.num(rng, 0.01, 0.12),
             'min distance slab top': -above, 'max distance slab top': thick,
             'ridge coordinates': [[[wg.R(t['p0'][0] - t['n'][0] * rd - t['e'][0] * 4e6), wg.R(t['p0'][1] - t['n'][1] * rd - t['e'][1] * 4e6)],
                                    [wg.R(t['p1'][0] - t['n'][0] * rd + t['e'][0] * 4e6), wg.R(t['p1'][1] - t['n'][1] * rd + t['e'][1] * 4e6)]]]}
        if rng.random() < 0.5:
            m['coupling depth'] = wg.num(rng, 5e4, 1.5e5)
        if rng.random() < 0.4:
            m['taper distance'] = wg.num(rng, 0, 2e5)
        if rng.random() < 0.3:
            m['forearc cooling factor'] = wg.num(rng, 1.0, 20.0)
        if rng.random() < 0.4:
            m['reference model name'] = rng.choice(['half space model', 'plate model'])
        if rng.random() < 0.3:
            m['adiabatic heating'] = rng.random() < 0.5
        if rng.random() < 0.3:
            m['apply spline'] = True
            m['number of points in spline'] = rng.randint(3, 9)
        # the model's own thermal constants (documented options; default: the world's)
        if rng.random() < 0.4:
            m['thermal diffusivity'] = wg.num(rng, 0.4e-6, 2.0e-6)
        if rng.random() < 0.2:
            m['specific heat'] = wg.num(rng, 800, 1500)
        if rng.random() < 0.2:
            m['thermal expansion coefficient'] = wg.num(rng, 1e-5, 6e-5)
        if rng.random() < 0.2:
            m['density'] = wg.num(rng, 2800, 3500)
    f['temperature models'] = [m]
    doc['features'] = [f]
    fn = 's%d.wb' % i
    c = core.Case('s%d' % i, files={fn: wg.dumps(doc)})
    world(c, 1, core.workfile(PID, fn))
    probes = []
    prof = t['profile']
    for ip in range(80):
        gseg = rng.choice(prof)
        u = rng.uniform(0.02, 0.98)
        if ip >= 60:
            # the tip: last tenth of the last segment (where a taper brings the minimum temperature back to the ambient one)
            gseg = prof[-1]
            u = rng.uniform(0.8, 0.999)
        if gseg.kappa == 0.0:
            bh, bv, a = gseg.h0 + u * (gseg.h1 - gseg.h0), gseg.v0 + u * (gseg.v1 - gseg.v0), gseg.a0
        else:
            a = gseg.a0 + u * (gseg.a1 - gseg.a0)
            bh, bv = gseg.ch + math.sin(a) / gseg.kappa, gseg.cv - math.cos(a) / gseg.kappa
        r_off = rng.random()
        if ip >= 60:
            off = rng.uniform(0.0, 1.0) * thick
        elif r_off < 0.6:
            off = rng.uniform(-above, thick)
        elif r_off < 0.85:
            off = rng.uniform(-0.05, 0.15) * thick          # across the slab top, where the temperature minimum sits
            off = max(off, -above)
        else:
            off = rng.choice([0.0, 0.01 * thick, -0.5 * above])
        h, v = bh - math.sin(a) * off, bv + math.cos(a) * off
        depth = t['d0'] + v
        if depth < 0 or depth > t['d1'] or abs(h) < 1.0:
            continue
        ff = rng.uniform(0.1, 0.9)
        fx = t['p0'][0] + ff * (t['p1'][0] - t['p0'][0])
        fy = t['p0'][1] + ff * (t['p1'][1] - t['p0'][1])
        probes.append((off, depth, q3xyz(c, 1, fx + t['n'][0] * h, fy + t['n'][1] * h, ctx.H - depth, depth, PROPS)))
    return c, {'fn': fn, 'g': g, 'model': m, 'probes': probes, 'name': name, 'segments': f['segments'], 'thick': thick}


def check_slab(V, c, t):
    g = t['g']
    if c.crash:
        V.crash(c, t['fn'])
    if not ok(c.results[0]):
        if c.results[0][0] == 'ex':
            V.coverage['rejected_slab_worlds'] = V.coverage.get('rejected_slab_worlds', 0) + 1
        return
    for (off, depth, idx) in t['probes']:
        res = c.results[idx]
        if res[0] == 'missing':
            continue
        if not ok(res):
            V.coverage['slab_queries_that_threw'] = V.coverage.get('slab_queries_that_threw', 0) + 1
            continue
        v = vals(res)
        if v[1] < 0:
            continue
        V.count()
        T = v[0]
        if T != T or abs(T) == float('inf'):
            V.violation('temperature-not-finite:slab', {'world': t['fn'], 'model': t['model'], 'depth': depth, 'T': T})
            continue
        hot = adiabat(g, depth)           # the slab is the only feature: the temperature painted before is the background adiabat
        mm = t['model']
        if mm.get('thermal expansion coefficient', -1) > 0 or mm.get('specific heat', -1) > 0:
            # a model with its own expansivity / specific heat builds its own background adiabat: either one is a legitimate hot end member
            hot = max(hot, adiabat(g, depth, alpha=mm.get('thermal expansion coefficient') if mm.get('thermal expansion coefficient', -1) > 0 else None,
                                   cp=mm.get('specific heat') if mm.get('specific heat', -1) > 0 else None))
        cold = g['Ts']
        slack = 1e-9 * hot
        detail = {'world': t['fn'], 'model': t['model'], 'segments': t['segments'], 'distance_from_slab_top': off, 'depth': depth, 'T': T, 'surface_temperature': cold, 'adiabat': hot, 'globals': g}
        name = t['name'].replace(' ', '-')
        # support points of the spline are (max distance slab top)/(number of points) apart, the analytic profile has its sharp minimum at the top
        spacing = t['model'].get('max distance slab top', t['thick']) / float(t['model'].get('number of points in spline', 5))
        if t['model'].get('apply spline') and off < 1.5 * spacing and (T != T or T < cold - slack or T > hot + slack):
            V.violation('envelope:slab-mass-conserving:apply-spline:within-1.5-support-intervals-of-the-slab-top', detail)
        elif T != T or T < cold - slack:
            if t['name'] == 'plate model' and T == T and T >= min(cold, 273.15) - 1e-6:
                V.violation('slab-plate-model:T<surface-temperature:uses-273.15-instead-of-the-surface-temperature', detail)
            else:
                V.violation('envelope:slab-%s:colder-than-the-surface-temperature' % name, detail)
        elif T > hot + slack:
            V.violation('envelope:slab-%s:hotter-than-ambient-and-adiabat' % name, dict(detail, excess=T - hot))
        V.nontrivial((t['fn'], off, depth))
    V.sample({'world': t['fn'], 'model': t['model'], 'probe': t['probes'][0][:2] if t['probes'] else None}, limit=3)


def main(tier, seed, replay):
    core.build('asan')
    rng = random.Random(seed * 9176 + 20)
    V = core.Verdict(PID, tier, seed)
    V.coverage['rule'] = ('oceanic plates with half space / plate / constant-age plate models (replace, top <= bottom temperature, straight ridges, ages from metres off the axis to 300 Myr): depth profiles and '
                          'away-from-ridge profiles checked for the envelope [top, bottom], monotonicity in depth and age, attainment of the boundary temperatures; linear models of area features: envelope and attainment at '
                          'the local top/bottom; slabs with mass conserving / plate model temperatures: surface temperature <= T <= max(ambient, adiabat); non-trivial = monotonicity pairs, boundary probes, slab interior probes')
    n_o, n_l, n_s = (250, 150, 200) if tier == 'quick' else (7500, 4500, 6000)
    jobs = []
    for i in range(n_o):
        jobs.append(('oceanic',) + gen_oceanic(random.Random(rng.getrandbits(48)), i))
    for i in range(n_l):
        jobs.append(('linear',) + gen_linear(random.Random(rng.getrandbits(48)), i))
    for i in range(n_s):
        r = gen_slab(random.Random(rng.getrandbits(48)), i)
        if r:
            jobs.append(('slab',) + r)
    core.run_cases('asan', [j[1] for j in jobs], PID)
    for (kind, c, t) in jobs:
        {'oceanic': check_oceanic, 'linear': check_linear, 'slab': check_slab}[kind](V, c, t)
    return V.finish(floor_nontrivial=5000 if tier == 'quick' else 100000, floor_evaluations=10000)
