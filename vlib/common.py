"""Small helpers shared by the checkers."""
import math
from . import core

PROP_T = (1, 0, 0)
PROP_TAG = (4, 0, 0)
PROP_V = (5, 0, 0)


def q3(case, wid, ctx, sx, sy, d, props):
    x, y, z = ctx.point(sx, sy, d)
    return case.add('q3', wid, core.hx(x), core.hx(y), core.hx(z), core.hx(d), core.props_str(props))


def q3xyz(case, wid, x, y, z, d, props):
    return case.add('q3', wid, core.hx(x), core.hx(y), core.hx(z), core.hx(d), core.props_str(props))


def q2(case, wid, x2, z2, d, props):
    return case.add('q2', wid, core.hx(x2), core.hx(z2), core.hx(d), core.props_str(props))


def world(case, wid, path, seed=1, noshortcuts=0, has_out=0, outdir='-'):
    return case.add('world', wid, seed, has_out, noshortcuts, outdir, path)


def ok(res):
    return res[0] == 'ok'


def vals(res):
    return core.hv(res[1])


def rel_close(a, b, rel, abs_=0.0):
    if a == b:
        return True
    if a != a or b != b:
        return a != a and b != b
    return abs(a - b) <= abs_ + rel * max(abs(a), abs(b))


def neighbours(ctx, sx, sy, d, r_m):
    """the 6 axis neighbours at distance r_m metres (surface offsets in file units)"""
    du = r_m / ctx.unit()
    return [(sx + du, sy, d), (sx - du, sy, d), (sx, sy + du, d), (sx, sy - du, d), (sx, sy, d + r_m), (sx, sy, d - r_m)]


# ----------------------------------------------------------------------------------------
# the margin rule (DESIGN.md section 3.2): a disagreement is excused only if, within r of the
# point, the tag changes or the compared quantity jumps by at least half the disagreement.

MARGIN_R = 1.0e-3


def margin_pass(flavour, name, items, r_m=MARGIN_R, position_noise_m=0.0):
    """items: list of dicts {world: path, ctx, pt: (sx,sy,d), prop: (a,b,c), delta: float (largest disagreement in that block)}
    -> list of (excused: bool, info)"""
    if not items:
        return []
    by_world = {}
    for i, it in enumerate(items):
        by_world.setdefault(it['world'], []).append(i)
    cases = []
    plans = []
    for wpath, idxs in by_world.items():
        c = core.Case('m%d' % len(cases))
        world(c, 1, wpath, seed=items[idxs[0]].get('seed', 1))
        plan = []
        for i in idxs:
            it = items[i]
            sx, sy, d = it['pt']
            props = [PROP_TAG, tuple(it['prop'])]
            centre = q3(c, 1, it['ctx'], sx, sy, d, props)
            nb = [q3(c, 1, it['ctx'], a, b, dd, props) for (a, b, dd) in neighbours(it['ctx'], sx, sy, d, r_m)]
            plan.append((i, centre, nb))
        cases.append(c)
        plans.append((c, plan))
    core.run_cases(flavour, cases, name + '_margin')
    out = [None] * len(items)
    for c, plan in plans:
        for (i, centre, nb) in plan:
            rs = [c.results[centre]] + [c.results[k] for k in nb]
            if any(not ok(r) for r in rs):
                # a throwing neighbour is a discontinuity of its own
                out[i] = (True, 'neighbour-threw')
                continue
            vs = [vals(r) for r in rs]
            tags = set(v[0] for v in vs)
            if len(tags) > 1:
                out[i] = (True, 'tag-changes')
                continue
            spread = 0.0
            for k in range(1, len(vs[0])):
                col = [v[k] for v in vs]
                if any(x != x for x in col):
                    spread = float('inf')
                    break
                spread = max(spread, max(col) - min(col))
            if spread >= 0.5 * items[i]['delta']:
                out[i] = (True, 'jump-of-%g-within-%gm' % (spread, r_m))
            elif position_noise_m > 0 and items[i]['delta'] <= spread * (position_noise_m / r_m):
                # the value changes by `spread` over r_m: a disagreement this small is a displacement of the evaluation point by less than
                # position_noise_m (the resolution of the trench closest-point solver), not another value
                out[i] = (True, 'within-position-noise: spread %g within %g m, disagreement %g' % (spread, r_m, items[i]['delta']))
            else:
                out[i] = (False, 'smooth: spread %g within %g m, disagreement %g' % (spread, r_m, items[i]['delta']))
    return out


def block_delta(a, b):
    """largest absolute difference between two blocks (inf if NaN mismatch / length mismatch)"""
    if len(a) != len(b):
        return float('inf')
    m = 0.0
    for x, y in zip(a, b):
        if x != x or y != y:
            if (x != x) != (y != y):
                return float('inf')
            continue
        m = max(m, abs(x - y))
    return m


TOL = {1: 1e-6, 2: 1e-9, 3: 1e-9, 4: 0.0, 5: 1e-9}
