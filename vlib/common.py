"""Small helpers shared by the checkers."""
import math
from . import core

PROP_T = (1, 0, 0)
PROP_TAG = (4, 0, 0)
PROP_V = (5, 0, 0)


def q3(case, wid, ctx, sx, sy, d, props):
    x, y, z = ctx.point(sx, sy, d)
    return case.add('q3', wid, core.hx(x), core.hx(y), core.hx(z), core.hx(d), core.props_str(props))


def q3xyz(case, wid, x, y, z, d, props):
    return case.add('q3', wid, core.hx(x), core.hx(y), core.hx(z), core.hx(d), core.props_str(props))


def q2(case, wid, x2, z2, d, props):
    return case.add('q2', wid, core.hx(x2), core.hx(z2), core.hx(d), core.props_str(props))


def world(case, wid, path, seed=1, noshortcuts=0, has_out=0, outdir='-'):
    return case.add('world', wid, seed, has_out, noshortcuts, outdir, path)


def ok(res):
    return res[0] == 'ok'


def vals(res):
    return core.hv(res[1])


def rel_close(a, b, rel, abs_=0.0):
    if a == b:
        return True
    if a != a or b != b:
        return a != a and b != b
    return abs(a - b) <= abs_ + rel * max(abs(a), abs(b))


def neighbours(ctx, sx, sy, d, r_m):
    """the 6 axis neighbours at distance r_m metres (surface offsets in file units)"""
    du = r_m / ctx.unit()
    return [(sx + du, sy, d), (sx - du, sy, d), (sx, sy + du, d), (sx, sy - du, d), (sx, sy, d + r_m), (sx, sy, d - r_m)]
