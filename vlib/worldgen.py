"""Generator of world files with truth records (DESIGN.md section 3.1). Standard library only.

A generated world is a dict  {'json': <document>, 'truth': {...}}  where truth holds what the
generator knows by construction (coordinate system, radius, surface height, per feature the
footprint, depth range, tables) so that oracles never re-derive geometry from the JSON.
"""
import json
import math
import random

PI = math.pi
DBL_MAX = 1.7976931348623157e+308


# ----------------------------------------------------------------------------------------
# numbers
#
# rapidjson (as the library uses it, without kParseFullPrecisionFlag) parses a decimal number exactly only
# on its fast path: at most 15 significant digits and a small decimal exponent. Every number written to a
# world file therefore has at most 12 significant decimal digits, so that the double the library sees is
# the double the truth record holds (the exact oracles depend on it).

def R(x):
    return float('%.12g' % x)


def U(rng, a, b):
    return R(rng.uniform(a, b))


def rnd(obj):
    """round every float of a nested structure to 12 significant digits (tuples stay tuples)"""
    if isinstance(obj, float):
        if obj != obj or abs(obj) >= 1e300:
            return obj
        return R(obj)
    if isinstance(obj, dict):
        return {k: rnd(v) for k, v in obj.items()}
    if isinstance(obj, list):
        return [rnd(v) for v in obj]
    if isinstance(obj, tuple):
        return tuple(rnd(v) for v in obj)
    return obj


def check_exact_decimals(obj, path=''):
    """raises if a float in a document would not survive rapidjson's fast path"""
    if isinstance(obj, float):
        if obj == obj and abs(obj) != float('inf') and float('%.15g' % obj) != obj:
            raise ValueError('number with more than 15 significant digits at %s: %r' % (path, obj))
    elif isinstance(obj, dict):
        for k, v in obj.items():
            check_exact_decimals(v, path + '/' + k)
    elif isinstance(obj, (list, tuple)):
        for i, v in enumerate(obj):
            check_exact_decimals(v, path + '/' + str(i))

def exact(rng, lo, hi, bits=6):
    """a number in [lo,hi] with at most `bits` significant bits times a power of two"""
    if lo == hi:
        return float(lo)
    for _ in range(100):
        x = U(rng, lo, hi)
        if x == 0:
            return 0.0
        m, e = math.frexp(x)
        m = round(m * (1 << bits)) / float(1 << bits)
        y = math.ldexp(m, e)
        if lo <= y <= hi and float('%.15g' % y) == y:
            return y
    return R(lo)


def num(rng, lo, hi, p_exact=0.5):
    if rng.random() < p_exact:
        return exact(rng, lo, hi, rng.choice((3, 6, 10)))
    return U(rng, lo, hi)


def rint(rng, lo, hi, step):
    """a multiple of step in [lo,hi]"""
    k0 = math.ceil(lo / step)
    k1 = math.floor(hi / step)
    return float(rng.randint(k0, k1) * step)


# ----------------------------------------------------------------------------------------
# context: coordinate system, how a surface position + depth becomes a query point

class Ctx(object):
    def __init__(self, spherical=False, radius=6371000.0, height=None, depth_method='starting point'):
        self.sph = spherical
        self.R = radius
        self.H = height          # cartesian: z of the surface (query z = H - depth)
        self.depth_method = depth_method

    def point(self, sx, sy, depth):
        """surface position in FILE units (m or degrees) + depth -> cartesian query point"""
        if not self.sph:
            return (float(sx), float(sy), self.H - depth)
        r = self.R - depth
        lon = sx * PI / 180.0
        lat = sy * PI / 180.0
        cl = r * math.sin(0.5 * PI - lat)
        return (cl * math.cos(lon), cl * math.sin(lon), r * math.cos(0.5 * PI - lat))

    def unit(self):
        """length of one file unit in metres (roughly, for spherical)"""
        return self.R * PI / 180.0 if self.sph else 1.0

    def to_file(self, metres):
        return metres / self.unit()


def gen_ctx(rng, spherical=None, exotic=True):
    if spherical is None:
        spherical = rng.random() < 0.4
    if spherical:
        R = 6371000.0 if rng.random() < 0.6 or not exotic else num(rng, 1.0e6, 8.0e6)
        dm = rng.choice(['starting point', 'begin segment', 'begin at end segment'])
        return Ctx(True, R, None, dm)
    H = rng.choice([1.0e6, 2.0e6, 6371000.0, 2.9e6]) if rng.random() < 0.5 else num(rng, 1.0e6, 6.4e6)
    return Ctx(False, 6371000.0, H)


def gen_globals(rng, ctx, doc, exotic=True, force_surface=None):
    doc['version'] = '1.1'
    if ctx.sph:
        cs = {'model': 'spherical', 'depth method': ctx.depth_method}
        if ctx.R != 6371000.0:
            cs['radius'] = ctx.R
        doc['coordinate system'] = cs
    elif rng.random() < 0.5:
        doc['coordinate system'] = {'model': 'cartesian'}
    g = {'Tp': 1600.0, 'Ts': 293.15, 'alpha': 3.5e-5, 'cp': 1250.0, 'kappa': 0.804e-6, 'g': 9.81, 'force': False}
    if exotic and rng.random() < 0.6:
        g['Tp'] = num(rng, 1200, 2000)
        doc['potential mantle temperature'] = g['Tp']
    if exotic and rng.random() < 0.4:
        g['Ts'] = num(rng, 200, 400)
        doc['surface temperature'] = g['Ts']
    if exotic and rng.random() < 0.5:
        g['alpha'] = num(rng, 1e-5, 6e-5)
        doc['thermal expansion coefficient'] = g['alpha']
    if exotic and rng.random() < 0.5:
        g['cp'] = num(rng, 800, 1500)
        doc['specific heat'] = g['cp']
    if exotic and rng.random() < 0.3:
        g['kappa'] = num(rng, 0.5e-6, 1.5e-6)
        doc['thermal diffusivity'] = g['kappa']
    if exotic and rng.random() < 0.5:
        g['g'] = num(rng, 1.0, 20.0)
        doc['gravity model'] = {'model': 'uniform', 'magnitude': g['g']}
    if force_surface is None:
        force_surface = rng.random() < 0.25
    if force_surface:
        g['force'] = True
        doc['force surface temperature'] = True
    return g


def adiabat(g, depth):
    return g['Tp'] * math.exp(((g['alpha'] * g['g']) / g['cp']) * depth)


# ----------------------------------------------------------------------------------------
# polygons

def star_polygon(rng, cx, cy, rmin, rmax, n, clockwise=False, exact_coords=False):
    """random simple (star shaped) polygon around (cx,cy)"""
    angles = sorted(U(rng, 0, 2 * PI) for _ in range(n))
    # avoid nearly coincident directions
    for _ in range(50):
        ok = all((angles[(i + 1) % n] - angles[i]) % (2 * PI) > 0.15 for i in range(n)) and \
            max((angles[(i + 1) % n] - angles[i]) % (2 * PI) for i in range(n)) < PI - 0.1
        if ok:
            break
        angles = sorted(U(rng, 0, 2 * PI) for _ in range(n))
    else:
        angles = [2 * PI * i / n + 0.1 for i in range(n)]
    pts = []
    for a in angles:
        r = U(rng, rmin, rmax)
        x = R(cx + r * math.cos(a))
        y = R(cy + r * math.sin(a))
        if exact_coords:
            q = 2.0 ** math.floor(math.log2(rmax) - 6)
            x = round(x / q) * q
            y = round(y / q) * q
        pts.append((x, y))
    if clockwise:
        pts.reverse()
    return pts


def poly_contains(poly, x, y):
    """closed polygon test in floating point with a crude boundary flag: returns (inside, mindist)"""
    n = len(poly)
    wn = 0
    mind = float('inf')
    for i in range(n):
        x0, y0 = poly[i]
        x1, y1 = poly[(i + 1) % n]
        # distance to the edge
        dx, dy = x1 - x0, y1 - y0
        L2 = dx * dx + dy * dy
        t = 0.0 if L2 == 0 else max(0.0, min(1.0, ((x - x0) * dx + (y - y0) * dy) / L2))
        d = math.hypot(x - (x0 + t * dx), y - (y0 + t * dy))
        mind = min(mind, d)
        cr = (x1 - x0) * (y - y0) - (x - x0) * (y1 - y0)
        if y0 <= y:
            if y1 > y and cr > 0:
                wn += 1
        else:
            if y1 <= y and cr < 0:
                wn -= 1
    return wn != 0, mind


def poly_bbox(poly):
    xs = [p[0] for p in poly]
    ys = [p[1] for p in poly]
    return min(xs), min(ys), max(xs), max(ys)


def point_in_poly_interior(rng, poly, margin_frac=0.02):
    x0, y0, x1, y1 = poly_bbox(poly)
    size = max(x1 - x0, y1 - y0)
    for _ in range(200):
        x = U(rng, x0, x1)
        y = U(rng, y0, y1)
        ins, d = poly_contains(poly, x, y)
        if ins and d > margin_frac * size:
            return x, y
    cx = sum(p[0] for p in poly) / len(poly)
    cy = sum(p[1] for p in poly) / len(poly)
    return cx, cy


# ----------------------------------------------------------------------------------------
# models

OPS_T = ['replace', 'add', 'subtract']
OPS_C = ['replace', 'replace defined only', 'add', 'subtract']


def _op(rng, ops, p_replace=0.6):
    return 'replace' if rng.random() < p_replace else rng.choice(ops)


def rot_matrix(rng):
    """a proper rotation matrix from random z-x-z Euler angles"""
    a, b, c = (U(rng, 0, 2 * PI) for _ in range(3))
    ca, sa, cb, sb, cc, sc = math.cos(a), math.sin(a), math.cos(b), math.sin(b), math.cos(c), math.sin(c)
    return [[ca * cc - cb * sa * sc, -ca * sc - cb * cc * sa, sa * sb],
            [cc * sa + ca * cb * sc, ca * cb * cc - sa * sc, -ca * sb],
            [sb * sc, cc * sb, cb]]


def range_keys(ftype):
    """names of the model level range parameters per feature type"""
    if ftype == 'subducting plate':
        return 'min distance slab top', 'max distance slab top'
    if ftype == 'fault':
        return 'min distance fault center', 'max distance fault center'
    return 'min depth', 'max depth'


def gen_range(rng, ftype, f, m, p_range=0.4):
    """optionally add a model range narrower than the feature's; returns (lo, hi) truth"""
    kmin, kmax = range_keys(ftype)
    if rng.random() > p_range or EXTRA['no_ranges']:
        return None
    if ftype == 'subducting plate':
        th = f['_thickness']
        lo = num(rng, -0.2 * th, 0.4 * th)
        hi = num(rng, lo + 0.1 * th, 1.2 * th)
    elif ftype == 'fault':
        th = f['_thickness'] / 2
        lo = 0.0 if rng.random() < 0.6 else num(rng, 0, 0.3 * th)
        hi = num(rng, lo + 0.1 * th, 1.2 * th)
    else:
        d0, d1 = f['_d0'], f['_d1']
        span = d1 - d0
        lo = num(rng, d0 - 0.1 * span, d0 + 0.4 * span)
        hi = num(rng, lo + 0.1 * span, d1 + 0.2 * span)
        lo = max(lo, 0.0)
    m[kmin] = lo
    m[kmax] = hi
    return lo, hi


def gen_temperature_model(rng, ctx, ftype, f, allow=None, nonrandom=True):
    kmin, kmax = range_keys(ftype)
    choices = {
        'continental plate': ['uniform', 'linear', 'adiabatic', 'chapman'],
        'mantle layer': ['uniform', 'linear', 'adiabatic'],
        'oceanic plate': ['uniform', 'linear', 'adiabatic', 'half space model', 'plate model', 'plate model constant age'],
        'plume': ['uniform', 'gaussian'],
        'subducting plate': ['uniform', 'linear', 'adiabatic', 'plate model', 'mass conserving'],
        'fault': ['uniform', 'linear', 'adiabatic'],
    }[ftype]
    if allow is not None:
        choices = [c for c in choices if c in allow]
    name = rng.choice(choices)
    m = {'model': name}
    if rng.random() < 0.7:
        m['operation'] = _op(rng, OPS_T)
    if name == 'uniform':
        m['temperature'] = num(rng, 200, 2500)
        gen_range(rng, ftype, f, m)
    elif name == 'linear':
        m['top temperature' if ftype not in ('fault',) else 'center temperature'] = num(rng, 200, 1200) if rng.random() < 0.85 else -1
        m['bottom temperature' if ftype not in ('fault',) else 'side temperature'] = num(rng, 1000, 2500) if rng.random() < 0.7 else -1
        if gen_range(rng, ftype, f, m, 0.5) is None:
            # max is required
            if ftype == 'subducting plate':
                m[kmax] = f['_thickness']
            elif ftype == 'fault':
                m[kmax] = f['_thickness'] / 2
            else:
                m[kmax] = f['_d1']
    elif name == 'adiabatic':
        if rng.random() < 0.4:
            m['potential mantle temperature'] = num(rng, 1200, 2000)
        if rng.random() < 0.3:
            m['thermal expansion coefficient'] = num(rng, 1e-5, 6e-5)
        if rng.random() < 0.3:
            m['specific heat'] = num(rng, 800, 1500)
        gen_range(rng, ftype, f, m)
    elif name == 'chapman':
        if rng.random() < 0.6:
            m['top temperature'] = num(rng, 200, 400)
        if rng.random() < 0.5:
            m['top heat flux'] = num(rng, 0.03, 0.09)
        if rng.random() < 0.5:
            m['thermal conductivity'] = num(rng, 1.5, 4.0)
        if rng.random() < 0.5:
            m['heat generation per unit volume'] = num(rng, 0.0, 2e-6)
        gen_range(rng, ftype, f, m)
    elif ftype == 'oceanic plate' and name in ('half space model', 'plate model'):
        m['top temperature'] = num(rng, 250, 350)
        if rng.random() < 0.7:
            m['bottom temperature'] = num(rng, 1400, 1900)
        m['spreading velocity'] = num(rng, 0.005, 0.15)
        m['ridge coordinates'] = gen_ridges(rng, ctx, f)
        if gen_range(rng, ftype, f, m, 0.4) is None:
            m['max depth'] = f['_d1']
    elif name == 'plate model constant age':
        m['top temperature'] = num(rng, 250, 350)
        if rng.random() < 0.7:
            m['bottom temperature'] = num(rng, 1400, 1900)
        m['plate age'] = num(rng, 1e5, 2e8)
        if gen_range(rng, ftype, f, m, 0.4) is None:
            m['max depth'] = f['_d1']
    elif name == 'gaussian':
        depths = f['_plume_depths']
        m['depths'] = list(depths)
        m['centerline temperatures'] = [num(rng, 1500, 2500) if rng.random() < 0.85 else -1 for _ in depths]
        m['gaussian sigmas'] = [num(rng, 0.1, 0.8) for _ in depths]
    if ftype == 'subducting plate' and name == 'plate model':
        m['plate velocity'] = num(rng, 0.005, 0.15)
        if rng.random() < 0.3:
            m['density'] = num(rng, 3000, 3500)
        if rng.random() < 0.3:
            m['thermal conductivity'] = num(rng, 1.5, 4)
        if rng.random() < 0.3:
            m['adiabatic heating'] = rng.random() < 0.5
        gen_range(rng, ftype, f, m)
    if ftype == 'subducting plate' and name == 'mass conserving':
        m['spreading velocity'] = num(rng, 0.01, 0.12)
        m['subducting velocity'] = num(rng, 0.01, 0.12)
        m['ridge coordinates'] = gen_ridges(rng, ctx, f)
        m['min distance slab top'] = -num(rng, 0.5, 1.0) * f['_thickness']
        m['max distance slab top'] = num(rng, 0.8, 1.5) * f['_thickness']
        if rng.random() < 0.4:
            m['coupling depth'] = num(rng, 5e4, 1.5e5)
        if rng.random() < 0.3:
            m['taper distance'] = num(rng, 0, 2e5)
        if rng.random() < 0.3:
            m['adiabatic heating'] = rng.random() < 0.5
        if rng.random() < 0.4:
            m['reference model name'] = rng.choice(['half space model', 'plate model'])
        if rng.random() < 0.3:
            m['apply spline'] = True
            m['number of points in spline'] = rng.randint(3, 9)
    return m


def gen_ridges(rng, ctx, f):
    """one or two ridges well outside/alongside the footprint (file units)"""
    x0, y0, x1, y1 = f['_bbox']
    w = max(x1 - x0, y1 - y0)
    side = rng.choice([-1, 1])
    if EXTRA.get('short_ridges', 0.0) > 0 and rng.random() < EXTRA['short_ridges']:
        # a ridge shorter than the footprint (points beyond its ends have their foot clamped to an end point), oblique
        rx = (x0 - U(rng, 0.05, 0.6) * w) if side < 0 else (x1 + U(rng, 0.05, 0.6) * w)
        ya = y0 + U(rng, 0.2, 0.45) * (y1 - y0)
        yb = y0 + U(rng, 0.55, 0.8) * (y1 - y0)
        return [[[rx, ya], [rx + U(rng, -0.3, 0.3) * w, yb]]]
    rx = (x0 - U(rng, 0.05, 0.6) * w) if side < 0 else (x1 + U(rng, 0.05, 0.6) * w)
    ya = y0 - U(rng, 0.1, 0.5) * w
    yb = y1 + U(rng, 0.1, 0.5) * w
    if rng.random() < 0.6:
        return [[[rx, ya], [rx + U(rng, -0.1, 0.1) * w, yb]]]
    ym = 0.5 * (ya + yb)
    rx2 = rx + side * U(rng, 0.05, 0.3) * w
    return [[[rx, ya], [rx, ym]], [[rx2, ym], [rx2, yb]]]


# knobs for model types only some checks want (set by the check around its generation, default off so that the
# random streams of the other checks do not change)
EXTRA = {'water': 0.0, 'no_ranges': False, 'random_composition': 0.0, 'short_ridges': 0.0}


def gen_water_model(rng, ftype, f, ncomp):
    lith = rng.choice(['sediment', 'MORB', 'gabbro', 'peridotite'])
    m = {'model': 'tian water content', 'compositions': [rng.randrange(ncomp)], 'lithology': lith,
         'initial water content': num(rng, 0.5, 5.0), 'cutoff pressure': {'sediment': 1, 'MORB': 16, 'gabbro': 26, 'peridotite': 10}[lith]}
    if ftype == 'subducting plate':
        m['density'] = num(rng, 2800, 3400)
        m['min distance slab top'] = 0.0
        m['max distance slab top'] = (1.0 if EXTRA['no_ranges'] else num(rng, 0.2, 1.0)) * f['_thickness']
    else:
        m['min depth'] = f['_d0']
        m['max depth'] = num(rng, 0.3, 1.0) * (f['_d1'] - f['_d0']) + f['_d0']
    if rng.random() < 0.3:
        m['operation'] = rng.choice(['replace', 'replace defined only', 'add'])
    return m


def gen_composition_model(rng, ctx, ftype, f, ncomp, allow=None, p_ops=0.5):
    if EXTRA['water'] > 0 and ftype in ('oceanic plate', 'subducting plate') and allow is None and rng.random() < EXTRA['water']:
        return gen_water_model(rng, ftype, f, ncomp)
    if EXTRA['random_composition'] > 0 and ftype == 'continental plate' and allow is None and rng.random() < EXTRA['random_composition']:
        comps = rng.sample(range(ncomp), rng.randint(1, min(3, ncomp)))
        lo = [num(rng, -2, 2) for _ in comps]
        return {'model': 'random', 'compositions': comps, 'min value': lo, 'max value': [R(l + num(rng, 0.1, 3)) for l in lo]}
    choices = {'continental plate': ['uniform'], 'mantle layer': ['uniform'], 'oceanic plate': ['uniform'],
               'plume': ['uniform'], 'subducting plate': ['uniform', 'smooth'], 'fault': ['uniform', 'smooth']}[ftype]
    if allow is not None:
        choices = [c for c in choices if c in allow]
    name = rng.choice(choices)
    m = {'model': name}
    k = rng.randint(1, min(3, ncomp))
    comps = rng.sample(range(ncomp), k)
    m['compositions'] = comps
    if rng.random() < p_ops + 0.2:
        m['operation'] = _op(rng, OPS_C, 1 - p_ops)
    if name == 'uniform':
        if rng.random() < 0.7 or len(comps) > 1:
            m['fractions'] = [num(rng, 0.05, 1.0) for _ in comps]
        gen_range(rng, ftype, f, m)
    elif name == 'smooth':
        if ftype == 'fault':
            m['center fractions'] = [num(rng, 0.5, 1.0) for _ in comps]
            m['side fractions'] = [num(rng, 0.0, 0.4) for _ in comps]
            m['side distance fault center'] = num(rng, 0.3, 1.0) * f['_thickness'] / 2
        else:
            m['top fractions'] = [num(rng, 0.5, 1.0) for _ in comps]
            m['bottom fractions'] = [num(rng, 0.0, 0.4) for _ in comps]
            m['min distance slab top'] = 0.0
            m['max distance slab top'] = num(rng, 0.3, 1.0) * f['_thickness']
    return m


def gen_velocity_model(rng, ctx, ftype, f):
    m = {'model': 'uniform raw', 'velocity': [num(rng, -0.1, 0.1), num(rng, -0.1, 0.1), num(rng, -0.1, 0.1)]}
    if rng.random() < 0.4:
        m['operation'] = _op(rng, OPS_T)
    gen_range(rng, ftype, f, m, 0.3)
    return m


def gen_grains_model(rng, ctx, ftype, f, ncomp, random_models=False):
    names = ['uniform']
    if random_models:
        names = ['random uniform distribution deflected'] if ftype == 'plume' else ['random uniform distribution', 'random uniform distribution deflected', 'uniform']
    name = rng.choice(names)
    m = {'model': name}
    k = rng.randint(1, min(2, ncomp))
    comps = rng.sample(range(ncomp), k)
    m['compositions'] = comps
    if name == 'uniform':
        if rng.random() < 0.5:
            m['rotation matrices'] = [rot_matrix(rng) for _ in comps]
        else:
            m['Euler angles z-x-z'] = [[U(rng, 0, 360), U(rng, 0, 180), U(rng, 0, 360)] for _ in comps]
        m['grain sizes'] = [num(rng, 0.01, 1.0) if rng.random() < 0.7 else -1 for _ in comps]
    else:
        m['grain sizes'] = [num(rng, 0.01, 1.0) if rng.random() < 0.5 else -1 for _ in comps]
        m['normalize grain sizes'] = [rng.random() < 0.5 for _ in comps]
        if name.endswith('deflected'):
            if True:
                m['deflections'] = [num(rng, 0.0, 1.0) for _ in comps]
            if rng.random() < 0.5:
                m['basis rotation matrices'] = [rot_matrix(rng) for _ in comps]
            elif rng.random() < 0.5:
                m['basis Euler angles z-x-z'] = [[U(rng, 0, 360), U(rng, 0, 180), U(rng, 0, 360)] for _ in comps]
    gen_range(rng, ftype, f, m, 0.3)
    return m


def add_models(rng, ctx, ftype, f, ncomp, opts):
    """attach model lists to feature dict f (keys starting with '_' are scratch and stripped later)"""
    nonrandom = not opts.get('random_models', False)
    allow_t = opts.get('allow_temperature')
    if rng.random() < opts.get('p_temperature', 0.8):
        n = 1 if rng.random() < 0.7 else 2
        f['temperature models'] = [gen_temperature_model(rng, ctx, ftype, f, allow_t) for _ in range(n)]
    if rng.random() < opts.get('p_composition', 0.8):
        n = 1 if rng.random() < 0.6 else 2
        f['composition models'] = [gen_composition_model(rng, ctx, ftype, f, ncomp) for _ in range(n)]
    if rng.random() < opts.get('p_grains', 0.4):
        f['grains models'] = [gen_grains_model(rng, ctx, ftype, f, ncomp, not nonrandom)]
    if rng.random() < opts.get('p_velocity', 0.4):
        f['velocity models'] = [gen_velocity_model(rng, ctx, ftype, f)]


# ----------------------------------------------------------------------------------------
# features

AREA = ('continental plate', 'oceanic plate', 'mantle layer')
LINE = ('subducting plate', 'fault')


def region(rng, ctx, opts):
    """centre and size (file units) of a feature footprint"""
    if ctx.sph:
        if opts.get('dateline') or rng.random() < 0.25:
            cx = rng.choice([-1, 1]) * U(rng, 170, 180)
        else:
            cx = U(rng, -170, 170)
        cy = U(rng, -55, 55)
        size = U(rng, 3, 14)
    else:
        c = opts.get('centre')
        spread = opts.get('spread', 1.0e6)
        cx = (c[0] if c else 0.0) + U(rng, -spread, spread)
        cy = (c[1] if c else 0.0) + U(rng, -spread, spread)
        size = U(rng, 2e5, 9e5)
    return cx, cy, size


def gen_area_feature(rng, ctx, ftype, idx, ncomp, opts, where=None):
    cx, cy, size = where or region(rng, ctx, opts)
    n = rng.randint(3, 9)
    poly = star_polygon(rng, cx, cy, 0.35 * size, size, n, clockwise=rng.random() < 0.5, exact_coords=rng.random() < 0.3)
    f = {'model': ftype, 'name': 'f%d' % idx, 'coordinates': [list(p) for p in poly]}
    if rng.random() < 0.5:
        f['tag'] = rng.choice(['A', 'B', 'C', 'f%d' % idx])
    d0 = 0.0
    d1 = DBL_MAX
    if rng.random() < 0.6:
        d0 = num(rng, 0, 1.5e5)
        f['min depth'] = d0
    if rng.random() < 0.85:
        d1 = d0 + num(rng, 2e4, 4e5)
        f['max depth'] = d1
    f['_d0'] = d0
    f['_d1'] = d1 if d1 < 1e300 else d0 + 3e5
    f['_bbox'] = poly_bbox(poly)
    add_models(rng, ctx, ftype, f, ncomp, opts)
    truth = {'type': ftype, 'name': f['name'], 'tag': f.get('tag') or ftype, 'poly': poly, 'd0': d0, 'd1': d1, 'centre': (cx, cy), 'size': size}
    return f, truth


def gen_plume(rng, ctx, idx, ncomp, opts, where=None):
    cx, cy, size = where or region(rng, ctx, opts)
    n = rng.randint(opts.get('plume_min_sections', 2), 4)
    d0 = num(rng, 0, 1e5)
    depths = []
    d = d0 + num(rng, 2e4, 1.5e5)
    for _ in range(n):
        depths.append(d)
        d += num(rng, 5e4, 4e5)
    coords = [[cx + U(rng, -0.3, 0.3) * size, cy + U(rng, -0.3, 0.3) * size] for _ in range(n)]
    f = {'model': 'plume', 'name': 'f%d' % idx, 'coordinates': coords, 'cross section depths': depths,
         'semi-major axis': [num(rng, 0.2, 0.7) * size for _ in range(n)],
         'eccentricity': [num(rng, 0.0, 0.9) for _ in range(n)],
         'rotation angles': [U(rng, 0, 360) if rng.random() < 0.7 else rint(rng, 0, 360, 15) for _ in range(n)],
         'min depth': d0}
    d1 = DBL_MAX
    if rng.random() < 0.8:
        d1 = depths[-1] + num(rng, 0, 3e5)
        f['max depth'] = d1
    if rng.random() < 0.5:
        f['tag'] = rng.choice(['A', 'B', 'C', 'f%d' % idx])
    f['_d0'] = d0
    f['_d1'] = d1 if d1 < 1e300 else depths[-1] + 3e5
    f['_plume_depths'] = depths
    f['_bbox'] = (cx - size, cy - size, cx + size, cy + size)
    add_models(rng, ctx, 'plume', f, ncomp, opts)
    truth = {'type': 'plume', 'name': f['name'], 'tag': f.get('tag') or 'plume', 'coords': coords, 'depths': depths, 'a': f['semi-major axis'],
             'e': f['eccentricity'], 'angles': f['rotation angles'], 'd0': d0, 'd1': d1, 'centre': (cx, cy), 'size': size}
    return f, truth


def gen_trench(rng, ctx, cx, cy, size, n, max_bend_deg=50.0):
    """polyline of n points through (cx,cy), total length ~ size (file units)"""
    az = U(rng, 0, 2 * PI)
    seg = size / max(1, n - 1)
    pts = [(0.0, 0.0)]
    a = az
    for _ in range(n - 1):
        sl = seg * U(rng, 0.6, 1.2)
        pts.append((pts[-1][0] + sl * math.cos(a), pts[-1][1] + sl * math.sin(a)))
        a += math.radians(U(rng, -max_bend_deg, max_bend_deg))
    mx = sum(p[0] for p in pts) / n
    my = sum(p[1] for p in pts) / n
    return [(R(cx + p[0] - mx), R(cy + p[1] - my)) for p in pts]


def gen_segments(rng, nseg, total_len, thick, fault=False, vary=True):
    segs = []
    a0 = U(rng, 20, 70) if not fault else U(rng, 50, 130)
    for i in range(nseg):
        a1 = a0 if (not vary or rng.random() < 0.4) else max(5.0, min(175.0, a0 + U(rng, -30, 30)))
        t0 = thick if rng.random() < 0.6 else thick * U(rng, 0.6, 1.0)
        t1 = t0 if rng.random() < 0.6 else thick * U(rng, 0.6, 1.0)
        s = {'length': total_len / nseg * U(rng, 0.7, 1.3), 'thickness': [t0] if t0 == t1 and rng.random() < 0.5 else [t0, t1], 'angle': [a0] if a0 == a1 and rng.random() < 0.5 else [a0, a1]}
        if not fault and rng.random() < 0.3:
            tt = thick * U(rng, -0.3, 0.2)
            s['top truncation'] = [tt] if rng.random() < 0.5 else [tt, thick * U(rng, -0.3, 0.2)]
        segs.append(s)
        a0 = a1
    return segs


def gen_line_feature(rng, ctx, ftype, idx, ncomp, opts, where=None):
    cx, cy, size = where or region(rng, ctx, opts)
    n = opts.get('ncoords') or rng.choice([2, 2, 3, 4, 5])
    tr = gen_trench(rng, ctx, cx, cy, size * 1.5, n, opts.get('max_bend', 45.0))
    fault = ftype == 'fault'
    unit = ctx.unit()
    total_len = num(rng, 2e5, 6e5)
    thick = num(rng, 5e4, 1.5e5) if not fault else num(rng, 2e4, 1e5)
    nseg = rng.randint(1, 3)
    # dip point: to one side of the trench
    dx = tr[-1][0] - tr[0][0]
    dy = tr[-1][1] - tr[0][1]
    L = math.hypot(dx, dy) or 1.0
    side = rng.choice([-1, 1])
    far = size * U(rng, 2, 5)
    dip = [0.5 * (tr[0][0] + tr[-1][0]) - side * dy / L * far, 0.5 * (tr[0][1] + tr[-1][1]) + side * dx / L * far]
    if ctx.sph:
        dip[1] = max(-89.0, min(89.0, dip[1]))
    f = {'model': ftype, 'name': 'f%d' % idx, 'coordinates': [list(p) for p in tr], 'dip point': dip,
         'segments': gen_segments(rng, nseg, total_len, thick, fault)}
    d0 = 0.0
    if rng.random() < 0.4:
        d0 = num(rng, 0, 1e5)
        f['min depth'] = d0
    d1 = DBL_MAX
    if rng.random() < 0.4:
        d1 = d0 + num(rng, 1e5, 7e5)
        f['max depth'] = d1
    if rng.random() < 0.5:
        f['tag'] = rng.choice(['A', 'B', 'C', 'f%d' % idx])
    f['_thickness'] = thick
    f['_d0'] = d0
    f['_d1'] = d1 if d1 < 1e300 else d0 + total_len
    f['_bbox'] = (cx - size, cy - size, cx + size, cy + size)
    add_models(rng, ctx, ftype, f, ncomp, opts)
    # optionally push some models down into segments / sections
    if opts.get('sections', True) and n >= 2 and rng.random() < 0.35:
        k = rng.randrange(n)
        sec = {'coordinate': k, 'segments': gen_segments(rng, nseg, total_len * U(rng, 0.7, 1.2), thick * U(rng, 0.7, 1.2), fault)}
        if rng.random() < 0.5:
            sec['temperature models'] = [gen_temperature_model(rng, ctx, ftype, f, ['uniform', 'linear', 'adiabatic'])]
        f['sections'] = [sec]
    if opts.get('segment_models', True) and rng.random() < 0.3:
        s = rng.choice(f['segments'])
        s['composition models'] = [gen_composition_model(rng, ctx, ftype, f, ncomp, ['uniform'])]
    truth = {'type': ftype, 'name': f['name'], 'tag': f.get('tag') or ftype, 'trench': tr, 'dip': dip, 'd0': d0, 'd1': d1,
             'length': total_len, 'thickness': thick, 'centre': (cx, cy), 'size': size, 'side': side,
             'angle0': f['segments'][0]['angle'][0]}
    return f, truth


def strip(obj):
    """remove scratch keys (leading underscore)"""
    if isinstance(obj, dict):
        return {k: strip(v) for k, v in obj.items() if not k.startswith('_')}
    if isinstance(obj, list):
        return [strip(v) for v in obj]
    return obj


def gen_feature(rng, ctx, ftype, idx, ncomp, opts, where=None):
    if ftype in AREA:
        f, t = gen_area_feature(rng, ctx, ftype, idx, ncomp, opts, where)
    elif ftype == 'plume':
        f, t = gen_plume(rng, ctx, idx, ncomp, opts, where)
    else:
        f, t = gen_line_feature(rng, ctx, ftype, idx, ncomp, opts, where)
    # the same rounding on both sides keeps file and truth record identical
    return rnd(f), rnd(t)


ALL_TYPES = ['continental plate', 'oceanic plate', 'mantle layer', 'plume', 'subducting plate', 'fault']


def gen_world(rng, opts=None):
    """opts: spherical(None/bool), nfeatures(int or (lo,hi)), types(list), cross_section(None/bool), random_models(bool),
    force_surface(None/bool), overlap(bool), exotic(bool), ncomp(int)"""
    opts = dict(opts or {})
    ctx = opts.get('ctx') or gen_ctx(rng, opts.get('spherical'), opts.get('exotic', True))
    doc = {}
    g = gen_globals(rng, ctx, doc, opts.get('exotic', True), opts.get('force_surface'))
    ncomp = opts.get('ncomp', 4)
    nf = opts.get('nfeatures', (0, 5))
    if isinstance(nf, tuple):
        nf = rng.randint(nf[0], nf[1])
    types = opts.get('types', ALL_TYPES)
    feats = []
    truths = []
    # overlapping footprints: features share one region centre
    base = region(rng, ctx, opts)
    for i in range(nf):
        ftype = rng.choice(types)
        if opts.get('type_sequence'):
            ftype = opts['type_sequence'][i % len(opts['type_sequence'])]      # (the draw above keeps the random stream of every other caller)
        where = None
        if opts.get('overlap', True) and rng.random() < 0.8:
            jitter = 0.5 * base[2]
            where = (base[0] + U(rng, -jitter, jitter), base[1] + U(rng, -jitter, jitter), base[2] * U(rng, 0.6, 1.2))
            if ctx.sph:
                where = (where[0], max(-70.0, min(70.0, where[1])), where[2])
        f, t = gen_feature(rng, ctx, ftype, i, ncomp, opts, where)
        feats.append(f)
        truths.append(t)
    doc['features'] = [strip(f) for f in feats]
    cross = opts.get('cross_section')
    if cross is None:
        cross = rng.random() < 0.4
    cs = None
    if cross:
        if ctx.sph:
            a = (base[0] - base[2], base[1] - 0.5 * base[2] * U(rng, -1, 1))
            b = (base[0] + base[2], base[1] + 0.5 * base[2] * U(rng, -1, 1))
            a = (max(-360.0, min(360.0, a[0])), max(-80.0, min(80.0, a[1])))
            b = (max(-360.0, min(360.0, b[0])), max(-80.0, min(80.0, b[1])))
        else:
            ang = U(rng, 0, 2 * PI)
            a = (base[0] - base[2] * math.cos(ang), base[1] - base[2] * math.sin(ang))
            b = (base[0] + base[2] * math.cos(ang), base[1] + base[2] * math.sin(ang))
        if rng.random() < 0.5:
            a, b = b, a
        cs = rnd([list(a), list(b)])
        doc['cross section'] = cs
    if opts.get('seed_entry') is not None:
        doc['random number seed'] = opts['seed_entry']
    truth = {'ctx': ctx, 'globals': g, 'features': truths, 'base': base, 'cross': cs, 'ncomp': ncomp}
    return {'json': doc, 'truth': truth}


def dumps(doc):
    check_exact_decimals(doc)
    return json.dumps(doc, indent=1, allow_nan=True)


# ----------------------------------------------------------------------------------------
# query points

def sample_points(rng, world, n, p_inside=0.6):
    """surface positions (file units) + depths biased towards the features"""
    t = world['truth']
    ctx = t['ctx']
    base = t['base']
    pts = []
    feats = t['features']
    for _ in range(n):
        if feats and rng.random() < p_inside:
            ft = rng.choice(feats)
            pts.append(point_in_feature(rng, ctx, ft))
        else:
            s = base[2] * 2.5
            sx = base[0] + U(rng, -s, s)
            sy = base[1] + U(rng, -s, s)
            if ctx.sph:
                sy = max(-89.0, min(89.0, sy))
                sx = ((sx + 180.0) % 360.0) - 180.0
            d = rng.choice([0.0, U(rng, 0, 8e5), U(rng, 0, 2e5)])
            pts.append((sx, sy, d))
    return pts


def wrap_lon(ctx, sx):
    return ((sx + 180.0) % 360.0) - 180.0 if ctx.sph else sx


def point_in_feature(rng, ctx, ft):
    """a point that is probably inside feature truth ft (not guaranteed)"""
    d0 = ft['d0']
    d1 = ft['d1'] if ft['d1'] < 1e300 else d0 + 4e5
    if ft['type'] in AREA:
        x, y = point_in_poly_interior(rng, ft['poly'])
        d = U(rng, d0, d1) if rng.random() < 0.9 else rng.choice([d0, d1])
        return (wrap_lon(ctx, x), y, d)
    if ft['type'] == 'plume':
        depths = ft['depths']
        d = U(rng, d0, min(d1, depths[-1] + 2e5))
        # centre at this depth
        i = 0
        while i < len(depths) - 1 and depths[i + 1] < d:
            i += 1
        c = ft['coords'][min(i, len(depths) - 1)]
        a = ft['a'][min(i, len(depths) - 1)]
        r = a * U(rng, 0, 0.8) * (0.4 if d < depths[0] else 1.0)
        ang = U(rng, 0, 2 * PI)
        return (wrap_lon(ctx, c[0] + r * math.cos(ang)), c[1] + r * math.sin(ang), d)
    # line feature: local frame
    tr = ft['trench']
    k = rng.randrange(len(tr) - 1)
    u = U(rng, 0.02, 0.98)
    px = tr[k][0] + u * (tr[k + 1][0] - tr[k][0])
    py = tr[k][1] + u * (tr[k + 1][1] - tr[k][1])
    dx = tr[k + 1][0] - tr[k][0]
    dy = tr[k + 1][1] - tr[k][1]
    L = math.hypot(dx, dy) or 1.0
    # unit normal towards the dip point
    nx, ny = -dy / L, dx / L
    if (ft['dip'][0] - px) * nx + (ft['dip'][1] - py) * ny < 0:
        nx, ny = -nx, -ny
    th = math.radians(ft['angle0'])
    s = U(rng, 0, ft['length'] * 0.9)
    if ft['type'] == 'fault':
        nn = U(rng, -0.5, 0.5) * ft['thickness']
    else:
        nn = U(rng, 0.02, 0.98) * ft['thickness']
    h = s * math.cos(th) - nn * math.sin(th)
    v = s * math.sin(th) + nn * math.cos(th)
    unit = ctx.unit()
    d = d0 + v
    return (wrap_lon(ctx, px + nx * h / unit), py + ny * h / unit, max(0.0, d))


# ----------------------------------------------------------------------------------------
# 2D cross-section queries

def section_query(ctx, cross, t, depth):
    """t = fraction along the section from its first to its second point.
    -> ((x2, z2) for the 2D interface, (sx, sy) surface position in file units per the statement of C09)"""
    ax, ay = cross[0]
    bx, by = cross[1]
    if not ctx.sph:
        L = math.hypot(bx - ax, by - ay)
        s = t * L
        ux, uy = (bx - ax) / L, (by - ay) / L
        return (s, ctx.H - depth), (ax + s * ux, ay + s * uy)
    d2r = PI / 180.0
    dlon, dlat = (bx - ax) * d2r, (by - ay) * d2r
    L = math.hypot(dlon, dlat)
    theta = t * L
    r = ctx.R - depth
    ux, uy = dlon / L, dlat / L
    return (r * math.cos(theta), r * math.sin(theta)), (ax + theta * ux / d2r, ay + theta * uy / d2r)
