"""Reference planar construction of a slab / fault surface (C06), written from the statement of the property:

In the vertical plane perpendicular to the trench the surface starts on the trench at the feature's min depth and
follows, segment after segment, a straight line (equal dips) or a circular arc (dip varying linearly with arc length)
towards the dip-point side.  Coordinates: h = horizontal distance from the trench towards the dip point side,
v = depth below the starting point (positive down).  Signed distance: positive below the surface.
"""
import math

PI = math.pi


class Seg(object):
    __slots__ = ('L', 'a0', 'a1', 'h0', 'v0', 'h1', 'v1', 's0', 'kappa', 'ch', 'cv', 'R')


def build_profile(segments):
    """segments: list of (length, dip0_deg, dip1_deg) -> list of Seg with start/end points"""
    out = []
    h, v, s = 0.0, 0.0, 0.0
    for (L, d0, d1) in segments:
        g = Seg()
        g.L, g.a0, g.a1 = L, math.radians(d0), math.radians(d1)
        g.h0, g.v0, g.s0 = h, v, s
        if d0 == d1:
            g.kappa = 0.0
            g.h1 = h + L * math.cos(g.a0)
            g.v1 = v + L * math.sin(g.a0)
        else:
            g.kappa = (g.a1 - g.a0) / L
            g.R = abs(1.0 / g.kappa)
            # centre: start + normal(a0)/kappa with normal n(a) = (-sin a, cos a) (pointing below the surface)
            g.ch = h - math.sin(g.a0) / g.kappa
            g.cv = v + math.cos(g.a0) / g.kappa
            g.h1 = g.ch + math.sin(g.a1) / g.kappa
            g.v1 = g.cv - math.cos(g.a1) / g.kappa
        out.append(g)
        h, v, s = g.h1, g.v1, s + L
    return out


def seg_distance(g, h, v):
    """-> (signed distance, arc length from the start of the segment, foot parameter in [0,1]) or None if the
    perpendicular foot is not inside the segment. Also returns how close the foot is to an end (relative)."""
    if g.kappa == 0.0:
        c, s = math.cos(g.a0), math.sin(g.a0)
        t = (h - g.h0) * c + (v - g.v0) * s           # along
        n = -(h - g.h0) * s + (v - g.v0) * c          # positive below
        u = t / g.L
        if u < 0.0 or u > 1.0:
            return None, u
        return (n, t, u), u
    # arc: angle of the foot = direction of the dip at the foot
    dh, dv = h - g.ch, v - g.cv
    rho = math.hypot(dh, dv)
    if rho == 0.0:
        return None, float('nan')
    if g.kappa > 0:
        # centre below the surface; surface point at dip a is centre + (sin a, -cos a) R
        a = math.atan2(dh, -dv)
        n = g.R - rho
    else:
        # centre above the surface; surface point at dip a is centre + (-sin a, cos a) R
        a = math.atan2(-dh, dv)
        n = rho - g.R
    # bring a to the branch around the segment's dip range
    mid = 0.5 * (g.a0 + g.a1)
    while a - mid > PI:
        a -= 2 * PI
    while a - mid < -PI:
        a += 2 * PI
    u = (a - g.a0) / (g.a1 - g.a0)
    if u < 0.0 or u > 1.0:
        return None, u
    return (n, u * g.L, u), u


def distances(profile, h, v, junction_margin=1e-3):
    """-> dict(distance, along, segment, fraction, ambiguous(bool), found(bool))
    'first closest segment whose foot lies inside the segment'; ambiguous when a foot parameter is within
    junction_margin of a segment end or two segments tie within 1e-6 relative."""
    best = None
    ambiguous = False
    cands = []
    for i, g in enumerate(profile):
        r, u = seg_distance(g, h, v)
        if u == u and (abs(u) < junction_margin or abs(u - 1.0) < junction_margin):
            ambiguous = True
        if r is None:
            continue
        cands.append((abs(r[0]), i, r))
    for (ad, i, r) in cands:
        if best is None or ad < best[0]:
            best = (ad, i, r)
    if best is None:
        return {'found': False, 'ambiguous': ambiguous}
    for (ad, i, r) in cands:
        if i != best[1] and abs(ad - best[0]) <= 1e-6 * max(best[0], 1.0):
            ambiguous = True
    g = profile[best[1]]
    n, t, u = best[2]
    return {'found': True, 'ambiguous': ambiguous, 'distance': n, 'along': g.s0 + t, 'segment': best[1], 'fraction': u}


def member(kind, res, seg_tables, total_length, depth, d0, d1):
    """membership per the statement; seg_tables = list of (thick0, thick1, trunc0, trunc1) per segment.
    -> (inside(bool), margin = smallest relative slack of the deciding inequalities)"""
    if depth < d0 or depth > d1:
        return False, min(abs(depth - d0), abs(depth - d1))
    if not res['found']:
        return False, float('inf')
    t0, t1, c0, c1 = seg_tables[res['segment']]
    f = res['fraction']
    thick = t0 + f * (t1 - t0)
    trunc = c0 + f * (c1 - c0)
    d = res['distance']
    a = res['along']
    if kind == 'fault':
        slacks = [0.5 * thick - abs(d), a, total_length - a, depth - d0, d1 - depth]
    else:
        slacks = [d - trunc, thick - d, a, total_length - a, depth - d0, d1 - depth]
    inside = all(s >= 0 for s in slacks)
    if thick <= 0 or thick < trunc:
        inside = False
    return inside, min(abs(s) for s in slacks)
