#!/usr/bin/env python3
"""validate_schema.py <schema.json> <listfile> : prints 'valid'/'invalid'/'error' per document path listed in listfile.
Run with the tooling interpreter (python3-vt) that has jsonschema; used by C12 as a second opinion on mutation classes."""
import json
import sys
try:
    import jsonschema
except ImportError:
    print('NOJSONSCHEMA')
    sys.exit(0)
schema = json.load(open(sys.argv[1]))
validator = jsonschema.Draft7Validator(schema)
for path in open(sys.argv[2]).read().split('\n'):
    if not path:
        continue
    try:
        doc = json.load(open(path))
        print('valid' if validator.is_valid(doc) else 'invalid')
    except Exception as e:
        print('error')
