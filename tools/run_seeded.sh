#!/bin/bash
# run_seeded.sh [ids...] : run each seeded change (seeded/<id>/patch.diff) against the check of its property (quick tier);
# prints one line per change: CAUGHT <keys> | MISSED. /repo is patched during each run and restored afterwards.
cd "$(dirname "$0")/.."
HERE="$(pwd)"
[ -n "${VP_RUN_REPO:-}" ] && export GWB_REPO="$VP_RUN_REPO"
REPO="${GWB_REPO:-/repo}"
ids="$@"; [ -z "$ids" ] && ids=$(ls seeded)
mkdir -p work/seeded_runs
for id in $ids; do
  prop=${id:0:3}
  out=work/seeded_runs/$id.txt
  rev=$(python3 -c "import json;print(json.load(open('seeded/$id/meta.json')).get('revert_first',''))" 2>/dev/null)
  WITH_PATCH_REVERT="$rev" tools/with_patch.sh "$HERE/seeded/$id/patch.diff" -- ./vcheck $prop --tier quick > $out 2>&1
  rc=$?
  keys=$(grep -E "^VIOLATION" $out | sed 's/.*(\(.*\), [0-9]* occurrence.*/\1/' | head -4 | tr '\n' ';')
  if [ $rc = 1 ] && [ -n "$keys" ]; then echo "$id CAUGHT $keys"; else echo "$id MISSED rc=$rc"; fi
done
[ -z "$(git -C "$REPO" status --short -- source include tests)" ] || echo "WARNING: $REPO not clean"
