#!/bin/bash
# thorough_all.sh [checks...] : every thorough tier once, summary lines only (meant for `vp run --with-repo -- tools/thorough_all.sh`:
# builds the flavours in the snapshot from the repository snapshot, so edits to /repo and /verif do not disturb it)
cd "$(dirname "$0")/.."
[ -n "${VP_RUN_REPO:-}" ] && export GWB_REPO="$VP_RUN_REPO"
export VERIF_WORKERS="${VERIF_WORKERS:-6}"
bin/setup.sh || exit 2
checks="$@"; [ -z "$checks" ] && checks="C01 C02 C03 C04 C05 C06 C07 C08 C09 C10 C11 C12 C13 C14 C15 C16 C17 C18 C19 C20"
for c in $checks; do
  s=$(date +%s)
  out=$(./vcheck $c --tier thorough 2>&1); rc=$?
  echo "$out" | grep -E "VIOLATION|KNOWN-FINDING|INCONCLUSIVE|HARNESS|Traceback" | cut -c1-300
  echo "$out" | tail -1 | sed "s/$/ rc=$rc total=$(( $(date +%s) - s ))s/"
done
