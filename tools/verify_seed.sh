#!/bin/bash
# verify_seed.sh <Cxx> [base dir of the worktrees, default /tmp/seed] [name under seeded/, default <Cxx>] : confirm a sub-agent's seeded change in its scratch worktree /tmp/seed/<Cxx>:
# the patch is exactly the worktree's diff, the unedited suite passes with it (but for grid_fault_edge_limits), the demonstration
# fails with it and passes without it. On success copy OUT/ to /verif/seeded/<Cxx>/ and add what was run to meta.json.
set -u
ID="$1"; BASE="${2:-/tmp/seed}"; DEST="${3:-$ID}"; W=$BASE/$ID; O=$W/OUT
[ -s $O/patch.diff ] || { echo "no patch"; exit 2; }
cd $W || exit 2
git checkout -q -- source include 2>/dev/null
git apply --check $O/patch.diff || { echo "patch does not apply to HEAD"; exit 2; }
git apply $O/patch.diff
echo "== files touched:"; git diff --stat -- . ':!OUT' | tail -5
ninja -C _b >/dev/null 2>&1 || { echo "build failed with patch"; exit 2; }
ctest --test-dir _b -j8 --timeout 900 2>&1 | tail -25 > $W/ctest.txt
FAILED=$(grep -E "^\s+[0-9]+ - .*\((Failed|Timeout|SEGFAULT|Subprocess aborted|Not Run|Exception)" $W/ctest.txt | sed 's/^\s*//' | tr '\n' ';')
if [ -n "$(echo "$FAILED" | tr ';' '\n' | grep -v '^$' | grep -v grid_fault_edge_limits)" ]; then
  # a loaded machine makes the compile_* tests time out: the failed ones once more, two at a time
  ctest --test-dir _b --rerun-failed -j2 --timeout 3000 2>&1 | tail -25 > $W/ctest.txt
  FAILED=$(grep -E "^\s+[0-9]+ - .*\((Failed|Timeout|SEGFAULT|Subprocess aborted|Not Run|Exception)" $W/ctest.txt | sed 's/^\s*//' | tr '\n' ';')
  echo "(re-ran the failed tests)"
fi
grep -q "tests failed out of" $W/ctest.txt || { echo "no ctest summary"; cat $W/ctest.txt; exit 2; }
grep "tests passed" $W/ctest.txt
echo "failed: $FAILED"
build_demo() {
  if [ -e $O/demo.cc ]; then
    g++ -std=c++14 -O1 -I$W/include -I$W/_b/include $O/demo.cc -Wl,--whole-archive $W/_b/lib/libWorldBuilder.a -Wl,--no-whole-archive -pthread -o $O/demo 2>$W/demo_build.log || { echo "demo build failed"; cat $W/demo_build.log | head; return 1; }
  fi
}
run_demo() {
  if [ -e $O/demo.cc ]; then (cd $O && timeout 600 ./demo) ; else (cd $O && timeout 600 bash ./demo.sh); fi
}
build_demo || exit 2
run_demo > $W/demo_with.txt 2>&1; RC_WITH=$?
git apply -R $O/patch.diff
ninja -C _b >/dev/null 2>&1 || { echo "build failed without patch"; exit 2; }
build_demo || exit 2
run_demo > $W/demo_without.txt 2>&1; RC_WITHOUT=$?
echo "demo with patch: rc=$RC_WITH ; without: rc=$RC_WITHOUT"
tail -3 $W/demo_with.txt; echo ---; tail -3 $W/demo_without.txt
OKFAIL=1
case "$FAILED" in ""|*grid_fault_edge_limits*) ;; esac
NF=$(echo "$FAILED" | tr ';' '\n' | grep -v '^$' | grep -vc grid_fault_edge_limits)
if [ "$RC_WITH" != 0 ] && [ "$RC_WITHOUT" = 0 ] && [ "$NF" = 0 ]; then
  D=/verif/seeded/$DEST; rm -rf $D; mkdir -p $D
  rm -f $O/demo
  cp -r $O/. $D/
  python3 - "$D/meta.json" "$FAILED" "$RC_WITH" "$RC_WITHOUT" "$W" <<'PY'
import json, sys
p, failed, rw, rwo, w = sys.argv[1:6]
try:
    m = json.load(open(p))
except Exception as e:
    m = {'note': 'meta.json of the sub-agent was not valid JSON: %s' % e}
m['confirmed'] = {'worktree': w + ' (scratch git worktree of /repo HEAD, removed afterwards)',
                  'suite_with_patch': 'ctest -j8: all pass except: ' + failed,
                  'demo_exit_with_patch': int(rw), 'demo_exit_without_patch': int(rwo),
                  'demo_output_with_patch_tail': open(w + '/demo_with.txt').read()[-600:],
                  'demo_output_without_patch_tail': open(w + '/demo_without.txt').read()[-400:]}
json.dump(m, open(p, 'w'), indent=1)
PY
  echo "KEPT -> $D"
else
  echo "NOT KEPT (NF=$NF)"; exit 1
fi
