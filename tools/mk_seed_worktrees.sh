#!/bin/bash
# mk_seed_worktrees.sh <base dir> <ids...> : one scratch git worktree of /repo HEAD per id under <base>, each with its own
# build (_b, configured like /repo/_build: unity, RelWithDebInfo, tests on) and an empty OUT/ for the sub-agent's deliverables.
# ccache (basedir = the worktree) makes the 2nd..nth build cheap. Remove with: git -C /repo worktree remove --force <dir>
set -u
BASE="$1"; shift
mkdir -p "$BASE"
export CCACHE_DIR=/tmp/ccache_seed CCACHE_NOHASHDIR=1 CCACHE_SLOPPINESS=time_macros,include_file_mtime,include_file_ctime
for id in "$@"; do
  W=$BASE/$id
  [ -d "$W" ] && { echo "$W exists"; continue; }
  git -C /repo worktree add -q --detach "$W" HEAD || exit 2
  mkdir -p "$W/OUT"
  ( cd "$W" && export CCACHE_BASEDIR="$W" && \
    cmake -S . -B _b -G Ninja -DCMAKE_BUILD_TYPE=RelWithDebInfo -DCMAKE_CXX_FLAGS=-Wno-error \
      -DCMAKE_CXX_COMPILER_LAUNCHER=ccache -DCMAKE_C_COMPILER_LAUNCHER=ccache \
      -DWB_MAKE_FORTRAN_WRAPPER=OFF -DWB_ENABLE_PYTHON=OFF -DWB_RUN_APP_TESTS=ON >/dev/null 2>&1 && \
    ninja -C _b >/dev/null 2>&1 ) || { echo "build failed in $W"; exit 2; }
  echo "ready $W"
done
