#!/usr/bin/env python3
"""Regenerates MANIFEST.json from the table below (single source of truth for what is claimed)."""
import json
import os
import subprocess

ROOT = os.path.dirname(os.path.dirname(os.path.abspath(__file__)))

# property -> (technique, level text, level note, design ref)
CLAIMED = {
    'C01': ('runtime monitoring: recorded query histories checked offline against an executable model (dictionary of stand-alone answers from twin worlds in other processes), on the ASan+UBSan build',
            'exploration: held on the histories actually executed (hundreds of worlds, tens of thousands of calls per run); every batched block, wrapper and repeated call is compared bit for bit with the stand-alone answer of a twin world; memory errors in the offset bookkeeping are caught by AddressSanitizer',
            'trusts the stand-alone single-property 3D/2D call of a twin world as the model; histories are finite samples biased to partial-key collisions (sibling points sharing a depth or a position, clamped shallow depths, layered water worlds); at most three worlds alive per process',
            'DESIGN.md section 4, C01'),
    'C03': ('runtime monitoring: reference-model monitor (closed-form background state evaluated next to the real code) over generated worlds and points through the 3D and the 2D entry points, on the ASan+UBSan build',
            'exploration: held on the sampled worlds/points (thousands of points far outside every feature and every sampled point with tag -1, both coordinate systems, random global constants); forced surface temperature checked at depth 0 for every batching; 320 single-feature worlds per quick run where the exact footprint oracles of C04 decide "outside" right next to the boundary',
            'the generator\'s truth record decides which points are far outside every feature (near the features the 3D tag -1 does); tolerance 1e-12 relative on the adiabat; a fault of the 2D mapping that keeps points outside every feature is invisible here (C09 sees it)',
            'DESIGN.md section 4, C03'),
    'C16': ('runtime monitoring: differential monitor - the same command stream through the native World, the C API and wrapper_cpp in one process, bit equality; file-system observation of create_world\'s output directory',
            'exploration: held on the executed call streams (corpus incl. random-model worlds and generated worlds, all create_world argument combinations sampled, file names with blanks next to decoy files); output vectors are allocated with exactly the announced size so ASan catches a wrapper that writes more',
            'native World is the reference; Fortran/Python wrappers are not built in this image; only relative output directories are used',
            'DESIGN.md section 4, C16'),
    'C09': ('runtime monitoring: differential monitor - properties(2D) against properties(3D) at the point mapped per the property statement (mapping re-implemented in the checker), a companion world with another cross section asked at the same 2D point right before half of the calls, margin rule for discontinuities, on the ASan+UBSan build',
            'exploration: held on the sampled sections/points (hundreds of worlds with random cross sections in both coordinate systems, thousands of compared calls with random property lists; 2D calls on worlds without cross section must throw, also at the surface with the temperature alone and a forced surface temperature)',
            'tolerances 1e-6 K / 1e-9 after the margin rule (a disagreement is excused only if the tag changes or the value jumps within 1 mm of the point); spherical velocity projection is unspecified and not compared',
            'DESIGN.md section 4, C09'),
    'C19': ('runtime monitoring: reference-model monitors - brute-force / exact-arithmetic oracles evaluated next to the real kernels (kd-tree, polygon test incl. exhaustive small lattices, Bezier trench curve incl. collinear trenches and queries on normals through coordinates, coordinate conversions incl. the centre and subnormal norms, great-circle distance), on the ASan+UBSan build',
            'exploration: held on ~10^6 kernel evaluations per quick run (exhaustive for all simple polygons with 3-5 vertices on 3x3/4x4 lattices, 5x5 in the thorough tier; random otherwise)',
            'integer-arithmetic polygon oracle; Bezier oracle is a 4000-samples-per-segment brute force over the library\'s own curve evaluation with golden-section refinement; feet within 1 % of the trench ends are outside the quantifier; far-field, two-point-trench and collinear-trench solver failures are known findings',
            'DESIGN.md section 4, C19'),
    'C04': ('runtime monitoring: reference-model monitor - exact rational polygon x depth-interval oracle and a plume reference built from the property statement, evaluated next to the real code on single-feature worlds (ASan+UBSan build)',
            'exploration: held on ~3x10^4 points per quick run (cartesian: exact incl. boundary lattice points and the floating point neighbours of min/max depth; spherical: clear-margin points incl. the +-360 alias; plumes incl. head and continuation)',
            'world files carry numbers with <= 12 significant digits so that rapidjson parses them exactly; spherical boundary points and degenerate ellipses are excluded',
            'DESIGN.md section 4, C04'),
    'C06': ('runtime monitoring: reference-model monitor - independent planar slab/fault construction (straight lines and arcs) compared with World::distance_to_plane and the tag on generated straight-trench worlds (ASan+UBSan build)',
            'exploration: held on ~5x10^4 points per quick run over hundreds of geometries (any azimuth/dip side, 1-4 segments, overturned dips, arcs, kinks, min depth > 0, truncations, short bodies that thicken strongly down dip); tolerance 1e-3 m',
            'ambiguous reference points (junction wedges, ties, beyond the centre of curvature, trench ends) are skipped and counted; spherical worlds are judged against the statement and the known non-orthonormal frame is recognised by its exact signature',
            'DESIGN.md section 4, C06'),
    'C05': ('runtime monitoring: reference-model monitor (closed forms written from the parameter documentation, evaluated next to the real code on single-model worlds) plus metamorphic sentinel-equivalence families, on the ASan+UBSan build',
            'exploration: held on ~3x10^4 interior points per quick run covering every listed model x feature type pair (listed in the evidence), both coordinate systems, sentinels, model ranges narrower/wider than the feature, model and feature depth bounds as affine surfaces, a base composition model in front of the model under test; 1e-12 relative (1e-9 for series and distance-encoded values)',
            'reference formulas are the checker\'s reading of the documentation (half-space/plate series, Chapman, Gaussian with r^2 = ellipse fraction, tanh profile of the smooth models); slab/fault linear sentinels and grains of unlisted compositions in line features are not judged',
            'DESIGN.md section 4, C05'),
    'C11': ('runtime monitoring: invariant monitors on Objects::Surface called directly (listed value at nodes, nodal bounds, affine exactness) and world-level probes of area features and of their temperature / composition / velocity models whose min/max depth is given at points (the value painted by the owner of the surface present/absent just above/below the expected depth), on the ASan+UBSan build',
            'exploration: held on ~1.6x10^4 probes per quick run (hundreds of triangulations incl. collinear triples, spherical alias, corners with a zero coordinate, base-value and DBL_MAX default corners, the base entry anywhere in the list)',
            'interior interpolated values are only bounded (the triangulation is left open by the property); 1e-10 relative for barycentric rounding; two input classes are known findings (approx(0,0), DBL_MAX default corners)',
            'DESIGN.md section 4, C11'),
    'C20': ('runtime monitoring: envelope / monotonicity / boundary-attainment monitors over depth profiles and away-from-ridge profiles of cooling models (oceanic half space, plate, constant-age plate; linear models; slab mass conserving and plate model), on the ASan+UBSan build',
            'exploration: held on ~4x10^4 probes per quick run (ages from metres off the ridge axis to 300 Myr, slab ages from under a million years, both coordinate systems, all slab shapes of the C06 generator below 85 degrees dip, probes at the slab tip)',
            'an envelope, not an equality: a wrong profile that stays inside it and keeps the monotonicities passes (C05 covers the oceanic formulas); excursions bounded by the analytic truncation bound of the 100-term series are a known finding',
            'DESIGN.md section 4, C20'),
    'C02': ('runtime monitoring: metamorphic + compositional monitor - per stack of overlapping features the world, every single-feature and single-model world and deletion/move variants are queried in one process; locality by bit equality, tag of the last covering feature (by name, and that name = the declared tag or the model name), and a fold of measured isolated model values through the declared operations (ASan+UBSan build)',
            'exploration: held on ~4x10^3 points per quick run over 100 stacks of 2-6 features (~30 worlds each) covering every feature type and operation; the fold oracle needs no knowledge of any model formula',
            'coverage is decided by the code\'s own single-feature answer (tag != -1); stacks containing the mass conserving model (reads the value painted so far) take part in locality/tag only; velocity is not part of the property',
            'DESIGN.md section 4, C02'),
    'C07': ('runtime monitoring with instrumentation hooks: the same queries against a world built normally and a world built with the GWB_VERIF switch that disables bounding box, depth cut-off, the depth-surface pre-tests of features and of their models, and the nearest-triangle search; bit equality, margin pass for depth-surface rounding (ASan+UBSan build)',
            'exploration: held on ~3.4x10^4 paired queries per quick run with generators biased to where the bounds are tight (deep starts, shallow/steep/overturned dips, short thick slabs, negative truncations, high latitudes, dateline, points around the buffered box and cut-off)',
            'the 30 area-feature models with a local depth range skip their own min/max pre-test in the second world (hook 5); plume models have constant ranges only; a difference is excused only if both worlds agree 1e-9 (relative) above and below the query depth and the two sides differ',
            'DESIGN.md section 4, C07'),
    'C08': ('runtime monitoring: metamorphic monitor - a world and its rigidly moved copy (every coordinate-valued entry transformed, query moved with it; 3D entry point and, with the same section coordinates, the 2D entry point) answered in one process, tolerance comparison with the margin rule; plus a reference-model monitor of the ridge kernel called directly (independent statement of the construction in vlib/ridgeref.py) whose verdict also decides which differences belong to the known one-alias finding (ASan+UBSan build)',
            'exploration: held on ~2.6x10^4 paired world queries and ~4.8x10^3 ridge kernel calls per quick run (all feature and model types, curved trenches, sections, depth surfaces, ridges incl. short oblique ones at the date line; any rotation/translation up to 1e7 m; longitude offsets moving footprints across the date line, incl. +-360)',
            'tolerances sit one order above the measured noise floor of the trench closest-point solver (relative 1e-8): 1e-6 K + 1e-7 relative, 1e-7 for compositions/grains; plume azimuth ties (exactly 180 degrees apart) are avoided; velocity is not compared',
            'DESIGN.md section 4, C08'),
    'C10': ('runtime monitoring: metamorphic monitor - families of files that place the same models at feature / section / segment level (bit-identical answers), and pairs of worlds differing in the section of one coordinate (bit-identical answers outside the neighbouring sections, convexity, attainment of section values, linear combination at the trench fraction on collinear trenches, model lists per section), section of the trench foot taken from the library\'s own closest-point kernel (ASan+UBSan build)',
            'exploration: held on ~10^4 points per quick run over 60 five-file families and 80 override pairs (2-6 coordinates, straight and gently curved trenches, slabs and faults, both coordinate systems)',
            'interpolated quantities are observed through temperature, composition, thickness, length and top truncation; angles only indirectly; the 20 % margin around section boundaries is not judged',
            'DESIGN.md section 4, C10'),
    'C17': ('runtime monitoring: differential monitor at the process boundary - stdout of the sanitizer build of gwb-dat on generated data files parsed by header and compared column by column with the %g rendering of the library values obtained through the monitor process',
            'exploration: held on ~3x10^3 printed rows per quick run (dim 2/3, 0-5 compositions, 0-4 grain compositions x 0-5 grains, convert spherical (with spherical and cartesian worlds), separators, comment lines of every length, malformed rows, random-model worlds, the consistency-check flag) over corpus and generated worlds',
            'only what is printed (6 significant digits) is compared; two header/column defects pinned by golden logs are known findings recognised by their exact signature',
            'DESIGN.md section 4, C17'),
    'C18': ('runtime monitoring: reference-model monitor at the process boundary - the ASCII VTU files of the sanitizer build of gwb-grid parsed and compared with an independent mesh generator (node set, logical cells, depth), with library values through the monitor process, and with the tag rule for the filtered / by-tag files',
            'exploration: held on ~150 tool runs per quick run (cartesian/chunk 2D/3D, annulus, sphere; 1-40 cells per direction; several -j; --filtered/--by-tag; option lines in any order; every VTU output format), ~5x10^4 node comparisons',
            'sphere meshes are checked structurally (shell radii, face sharing, volumes) rather than node by node; the binary VTU formats are decoded through their own headers and offsets and compared with the ASCII file; the highest-tag rule of the filters is taken from the source',
            'DESIGN.md section 4, C18'),
    'C14': ('runtime monitoring with ThreadSanitizer: multi-threaded stress harness in the monitor process (2-32 threads behind a barrier, shared query pool; C++ API and, for a third of the worlds, properties_2d/3d of the C interface) with every concurrent answer compared bitwise against the single threaded answer; gwb-grid under TSan/ASan for a range of -j (fixed list plus counts chosen relative to the node count of small grids: n-1, n, n+1, around n/2) with byte comparison of all VTU files; detector self-test on the known engine race of a random-model world',
            'exploration: held on ~2x10^5 concurrent calls per quick run (up to 32 simultaneously open calls observed) over 30 worlds and ~90 gwb-grid runs; ThreadSanitizer generalises the observed interleavings by happens-before',
            'only interleavings that happened (plus TSan\'s happens-before closure) are covered; at most 32 library threads and -j 128; worlds with random models are excluded by the property',
            'DESIGN.md section 4, C14'),
    'C15': ('runtime monitoring: history + executable model - five instances of a random-model world (twin, other seed, seed entry) driven by the same interleaved history (3D and 2D entry points, velocity blocks anywhere in the lists) in one process, bit comparison call by call, a third of the worlds replayed alone in a fresh process; invariant monitors on every returned grain set (proper rotation, size rules) and random composition (bounds), on the ASan+UBSan build',
            'exploration: held on ~6x10^3 interleaved calls per quick run over 120 single-feature worlds of every feature type offering a random model (1-200 grains, deflected and plain distributions, both coordinate systems)',
            'statistical uniformity is not a property and not tested; seeds congruent modulo 2^32 are the same mt19937 seed and are not required to differ',
            'DESIGN.md section 4, C15'),
    'C13': ('runtime monitoring with sanitizers: generated and corpus worlds queried on the ASan+UBSan(+float-cast-overflow) build at a catalogue of degenerate locations derived from each world\'s truth record; every returned value checked for finiteness, crashes/aborts/hangs routed through the crash matcher',
            'exploration: held on ~2.7x10^4 queries per quick run (~2.3x10^4 on a degenerate locus: vertices, edges, depth bounds and their floating point neighbours, trench line, slab tip, poles, date line with both zero signs, planet centre, surface at/below min depth, models pinching out to zero local thickness, the fore-arc wedge above a slab with a spline model under a cold plate); thorough adds magnitudes up to 1e12',
            'a finite sample of a continuum targeted at the loci the code special-cases; a reproducible watchdog firing is the only notion of non-termination',
            'DESIGN.md section 4, C13'),
    'C12': ('runtime monitoring with sanitizers: World construction (plus a fixed battery of queries) on the ASan+UBSan build for documents generated from the JSON schema the built library itself emits (adversarial list lengths and numbers), single-fault schema violations and unsupported option values of valid files (cross-checked with python jsonschema), and formatting variants (bit-identical answers); thorough adds libFuzzer on raw bytes and a valgrind memcheck replay',
            'exploration: held on ~1.5x10^3 schema-derived documents, ~600 mutated files and 100 formatting variants per quick run; every outcome is either "constructed" or std::exception with a message; crashes, sanitizer reports and hangs are routed through the crash matcher',
            '"all byte strings" is sampled; "never hangs" is a 30 s progress watchdog confirmed in isolation; sibling-list length checks are only demanded of models that are certainly instantiated',
            'DESIGN.md section 4, C12'),
}

PENDING_REASON = 'check not built yet (work in progress; see DESIGN.md section 9)'


def main():
    props = [json.loads(l) for l in open(os.path.join(ROOT, 'properties.jsonl'))]
    commits = subprocess.run(['git', '-C', '/repo', 'log', '--format=%H %s', '803ab9de..HEAD'], stdout=subprocess.PIPE, text=True).stdout.strip().split('\n')
    hook_commits = [c.split(' ')[0] for c in commits if ' verif hook' in c]
    m = {
        'version': 1,
        'setup_cmd': 'bin/setup.sh',
        'hooks': {
            'guard': 'GWB_VERIF',
            'enable': 'bin/build.sh <flavour> configures /repo out of tree into /verif/.build/<flavour> with -DGWB_VERIF in CMAKE_CXX_FLAGS (flavours: asan, tsan, plain, fuzz)',
            'baseline_off_cmd': 'bin/baseline_off.sh',
            'source_commits': list(reversed(hook_commits)),
            'add_only': True,
        },
        'engines': [
            {'name': 'wbmon', 'path': 'src/wbmon.cc', 'serves_properties': sorted(CLAIMED), 'kind_free_text': 'monitor process linked against the sanitizer build of the library; executes command streams, emits bit-exact event logs'},
            {'name': 'vcheck', 'path': 'vcheck', 'serves_properties': sorted(CLAIMED), 'kind_free_text': 'generators, sharded runner with crash/hang routing, offline checkers, known-findings matcher, evidence writer (python3 stdlib)'},
        ],
        'checks': [],
        'not_applicable': [],
        'notes': 'All checks are runtime monitors over executions of the real code built from /repo\'s working tree (see DESIGN.md). Exit 0 = held on everything explored, 1 = violation not listed in known_findings.json, 2 = harness failure or inconclusive run.',
    }
    for p in props:
        pid = p['id']
        if pid in CLAIMED:
            tech, text, note, ref = CLAIMED[pid]
            m['checks'].append({
                'property_id': pid,
                'quick_cmd': './vcheck %s --tier quick' % pid,
                'thorough_cmd': './vcheck %s --tier thorough' % pid,
                'evidence_file': 'evidence/%s.json' % pid,
                'replay_cmd_template': './vcheck %s --replay {path}' % pid,
                'engine': 'wbmon',
                'level_claimed': {'category': 'exploration', 'text': text, 'design_ref': ref},
                'level_note': note,
                'technique': tech,
            })
        else:
            m['not_applicable'].append({'property_id': pid, 'reason': PENDING_REASON})
    with open(os.path.join(ROOT, 'MANIFEST.json'), 'w') as f:
        json.dump(m, f, indent=1)
    print('claimed: %s' % ' '.join(sorted(CLAIMED)))


if __name__ == '__main__':
    main()
