#!/usr/bin/env python3
"""probe.py <world.wb> <sx> <sy> <depth> [more sx sy depth ...] : ad-hoc query of a world through wbmon (plain build):
temperature, compositions 0..2, tag, velocity at surface positions given in FILE units (m or degrees) + depth.
For investigations only; not part of any check."""
import json
import os
import sys

sys.path.insert(0, os.path.dirname(os.path.dirname(os.path.abspath(__file__))))
from vlib import core, worldgen as wg
from vlib.common import world, q3, vals, ok

path = os.path.abspath(sys.argv[1])
doc = json.load(open(path))
cs = doc.get('coordinate system', {'model': 'cartesian'})
if cs.get('model') == 'spherical':
    ctx = wg.Ctx(True, cs.get('radius', 6371000.0), None, cs.get('depth method'))
else:
    ctx = wg.Ctx(False, 6371000.0, float(os.environ.get('PROBE_H', '1e6')))
PROPS = [(1, 0, 0), (2, 0, 0), (2, 1, 0), (2, 2, 0), (4, 0, 0), (5, 0, 0)]
a = [float(x) for x in sys.argv[2:]]
c = core.Case('probe')
world(c, 1, path, noshortcuts=int(os.environ.get('PROBE_NOSHORTCUTS', '0')))
idx = [q3(c, 1, ctx, a[i], a[i + 1], a[i + 2], PROPS) for i in range(0, len(a), 3)]
core.build(os.environ.get('PROBE_FLAVOUR', 'plain'))
core.run_cases(os.environ.get('PROBE_FLAVOUR', 'plain'), [c], 'probe')
print(c.results[0][:2])
for k, i in enumerate(idx):
    r = c.results[i]
    print(a[3 * k:3 * k + 3], vals(r) if ok(r) else r)
if c.crash:
    print(c.crash)
