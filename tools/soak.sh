#!/bin/bash
# soak.sh "<checks>" "<seeds>" [tier] : run checks over seeds, print the summary and any VIOLATION lines
cd "$(dirname "$0")/.."
tier="${3:-quick}"
for c in $1; do for s in $2; do
  out=$(VERIF_SEED=$s ./vcheck $c --tier $tier 2>&1); rc=$?
  echo "$out" | grep -E "VIOLATION|INCONCLUSIVE|HARNESS|Traceback" | cut -c1-220
  echo "$out" | tail -1 | sed "s/$/ rc=$rc/"
done; done
