#!/bin/bash
# refresh_evidence.sh [tier] : run every check once on the unchanged tree (seed 1) so that the committed evidence files describe /repo itself
cd /verif
[ -z "$(git -C /repo status --short -- source include tests)" ] || { echo "/repo is not clean"; exit 2; }
for i in $(seq -w 1 20); do ./vcheck C$i --tier ${1:-quick} --seed 1 2>&1 | grep -E "VIOLATION|INCONCLUSIVE|seed=1"; done
