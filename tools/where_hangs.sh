#!/bin/bash
# where_hangs.sh <file.wb> [seconds] : construct the world, abort after N seconds and print the repository frames
f="$1"; n="${2:-8}"
printf 'world\t1\t1\t0\t0\t-\t%s\n' "$f" > /tmp/where_hangs.cmd
ASAN_OPTIONS=detect_leaks=0:handle_abort=1 timeout -s ABRT $n /verif/.build/asan/wbmon < /tmp/where_hangs.cmd 2>&1 | grep -E "^\s+#[0-9]+ .* /repo/" | head -8
