#!/usr/bin/env python3
"""seed_prompt.py <Cxx> <worktree> : the task text handed to an independent sub-agent that seeds a property-breaking change.
It contains the property as given (properties.jsonl), one-line summaries of the changes earlier rounds already produced for that
property (so that the new one goes elsewhere), and nothing else from /verif."""
import glob
import json
import os
import sys

ROOT = os.path.dirname(os.path.dirname(os.path.abspath(__file__)))
pid, wt = sys.argv[1], sys.argv[2]
prop = None
for l in open(os.path.join(ROOT, 'properties.jsonl')):
    p = json.loads(l)
    if p['id'] == pid:
        prop = p
prior = []
for d in sorted(glob.glob(os.path.join(ROOT, 'seeded', pid + '*'))):
    try:
        m = json.load(open(os.path.join(d, 'meta.json')))
    except Exception:
        continue
    s = (m.get('summary') or '').replace('\n', ' ')
    prior.append('- ' + s[:420])

print("""You are helping to evaluate a verification effort for the Geodynamic World Builder (C++ library + tools gwb-dat / gwb-grid that
compute temperature, composition, velocity and grain fields for tectonic features described in a JSON world file).

Your own scratch git worktree of the repository is %(wt)s (already built: build directory %(wt)s/_b, configured like the project's
normal build, unity build, tests enabled; rebuild with `ninja -C %(wt)s/_b`, run the suite with
`ctest --test-dir %(wt)s/_b -j8 --timeout 900`; one test, grid_fault_edge_limits, fails on the unchanged tree as well and is to be ignored).
Work ONLY inside %(wt)s. Do not read or write /repo, /verif or any other directory outside your worktree (other than /tmp scratch files
of your own, system headers and tools). There is no network.

The semantic property under study (it is meant to hold for every input / history, which the unit tests cannot settle):

%(prop)s

TASK. Make ONE small, realistic change to the source code (source/, include/; not tests/, not the reference outputs) that BREAKS this
property, in the way a plausible maintenance slip would (a copy-paste index, a refactoring that hoists or caches something, a changed
comparison, a lost alias/wrap, a dropped term, a swapped argument, a guard that moved ...), such that

 1. the code still compiles without new warnings of note and the existing test suite still passes unchanged (all tests but
    grid_fault_edge_limits) - run it and check;
 2. the property is really violated on the changed code, and was not on the unchanged code;
 3. the violation needs something SPECIFIC to manifest - an unusual but valid input form, a particular combination of options, a
    multi-step sequence of calls, a second world or thread, a particular geometric configuration, two sites that each look fine alone -
    and is NOT something any ordinary use of the library would expose at once. Prefer subtle over blatant; prefer a part of the
    property (a clause, a feature type, a model, an entry point, a coordinate system, a tool option) that the earlier changes listed
    below did not touch.

Earlier changes already made for this property by others (choose a DIFFERENT code site, mechanism and, if you can, a different clause
of the property):
%(prior)s

DELIVERABLES, all in %(wt)s/OUT/ :
 - patch.diff : `git -C %(wt)s diff -- source include > OUT/patch.diff` (exactly your change; it must apply to a clean checkout with `git apply`).
 - a demonstration that exits non-zero WITH the change and zero WITHOUT it: either demo.cc (a small C++ program; it will be built with
   `g++ -std=c++14 -O1 -I%(wt)s/include -I%(wt)s/_b/include demo.cc -Wl,--whole-archive %(wt)s/_b/lib/libWorldBuilder.a -Wl,--no-whole-archive -pthread -o demo`
   and run as ./demo from inside OUT/, so refer to its input files by relative name) or demo.sh (a bash script run from inside OUT/ that may call
   %(wt)s/_b/bin/gwb-dat or gwb-grid; it may use the absolute path of your worktree). Put every input file it needs into OUT/ as well.
   The demonstration must judge the PROPERTY (compare against an independent expectation, e.g. a closed form, a second query path, an
   equivalent input), not compare against numbers recorded from the unchanged build.
 - meta.json : {"property": "%(pid)s", "summary": "<what was changed, where>", "needs_to_manifest": "<the specific ingredient(s)>",
   "why_tests_pass": "<why the suite does not notice>", "how_demo_was_run": "<commands>", "clause": "<which part of the property>"}.
Before you finish: verify (a) suite passes with the change, (b) demo fails with the change, (c) reverse-apply the change (`git apply -R OUT/patch.diff`; NEVER use `git stash`:
stashes are shared between all worktrees of the repository and other people work in theirs), rebuild, demo passes, then re-apply the change (`git apply OUT/patch.diff`) so that the worktree ends WITH your change applied. Leave the worktree with the change applied and OUT/ complete.
Your final message: three or four lines saying what you changed and what it needs to manifest.""" % {
    'wt': wt, 'pid': pid, 'prop': json.dumps(prop, indent=1), 'prior': '\n'.join(prior) or '- (none yet)'})
