#!/bin/bash
# with_patch.sh <patch|--revert COMMIT> -- <command...> : apply to /repo, run, restore /repo
# WITH_PATCH_REVERT=<commit> : reverse that commit first (a seeded change written against the tree before a later fix of the same lines)
set -u
if [ -n "${WITH_PATCH_REVERT:-}" ]; then
  git -C /repo show "$WITH_PATCH_REVERT" | git -C /repo apply -R || exit 3
fi
if [ "$1" = "--revert" ]; then
  git -C /repo show "$2" | git -C /repo apply -R || exit 3
  shift 2
else
  git -C /repo apply "$1" || { git -C /repo checkout -- .; exit 3; }
  shift
fi
shift   # the --
export VERIF_EVIDENCE_DIR=/verif/work/evidence_patched
"$@"
rc=$?
git -C /repo checkout -- .
git -C /repo clean -fdq -- source include tests 2>/dev/null
exit $rc
