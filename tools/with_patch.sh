#!/bin/bash
# with_patch.sh <patch|--revert COMMIT> -- <command...> : apply to /repo, run, restore /repo
# WITH_PATCH_REVERT=<commit> : reverse that commit first (a seeded change written against the tree before a later fix of the same lines)
set -u
REPO="${GWB_REPO:-/repo}"
HERE="$(cd "$(dirname "$0")/.." && pwd)"
if [ -n "${WITH_PATCH_REVERT:-}" ]; then
  git -C "$REPO" show "$WITH_PATCH_REVERT" | git -C "$REPO" apply -R || exit 3
fi
if [ "$1" = "--revert" ]; then
  git -C "$REPO" show "$2" | git -C "$REPO" apply -R || exit 3
  shift 2
else
  git -C "$REPO" apply "$1" || { git -C "$REPO" checkout -- .; exit 3; }
  shift
fi
shift   # the --
export VERIF_EVIDENCE_DIR="$HERE/work/evidence_patched"
"$@"
rc=$?
git -C "$REPO" checkout -- .
git -C "$REPO" clean -fdq -- source include tests 2>/dev/null
exit $rc
