#!/bin/bash
# the repository's own suite with the guard OFF (the project's normal build in /repo/_build)
set -e
cmake -S /repo -B /repo/_build -G Ninja >/dev/null
cmake --build /repo/_build -j 16 >/dev/null
ctest --test-dir /repo/_build -j8 --timeout 900 --output-junit /repo/_build/verif_baseline_junit.xml
