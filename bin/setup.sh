#!/bin/bash
# builds every flavour from /repo's current working tree (offline; nothing is fetched)
cd "$(dirname "$0")/.."
rc=0
# asan first (every check needs it); the others in parallel afterwards
bin/build.sh asan || rc=2
GWB_JOBS=8 bin/build.sh tsan & p1=$!
GWB_JOBS=8 bin/build.sh plain & p2=$!
wait $p1 || rc=2
wait $p2 || rc=2
exit $rc
