#!/bin/bash
# build.sh <flavour> : (re)build /repo's current working tree + wbmon into /verif/.build/<flavour>
# flavours: asan tsan fuzz plain.  Serialised per flavour by flock; incremental (ninja).
set -u
FL="${1:?flavour}"
ROOT="$(cd "$(dirname "$0")/.." && pwd)"
REPO="${GWB_REPO:-/repo}"
B="$ROOT/.build/$FL"
mkdir -p "$B"
exec 9>"$B/.lock"
flock 9
COMMON="-g1 -fno-omit-frame-pointer -DNDEBUG -DGWB_VERIF -Wno-error -w"
CXX=g++; CC=gcc
case "$FL" in
  asan)  FLAGS="-O1 $COMMON -fsanitize=address,undefined,float-cast-overflow -fno-sanitize-recover=all"; LFLAGS="-fsanitize=address,undefined" ;;
  tsan)  FLAGS="-O1 $COMMON -fsanitize=thread"; LFLAGS="-fsanitize=thread" ;;
  plain) FLAGS="-O2 $COMMON"; LFLAGS="" ;;
  fuzz)  CXX=clang++; CC=clang; FLAGS="-O1 $COMMON -fsanitize=fuzzer-no-link,address,undefined -fno-sanitize-recover=all -fno-sanitize=object-size,pointer-overflow"; LFLAGS="-fsanitize=address,undefined" ;;
  *) echo "unknown flavour $FL" >&2; exit 2 ;;
esac
LOG="$B/build.log"
{
  # always re-run cmake: sources are collected by GLOB and may have been added/removed
  cmake -S "$REPO" -B "$B/wb" -G Ninja -DCMAKE_BUILD_TYPE=None \
     -DCMAKE_CXX_COMPILER=$CXX -DCMAKE_C_COMPILER=$CC \
     -DCMAKE_CXX_FLAGS="$FLAGS" -DCMAKE_EXE_LINKER_FLAGS_INIT="$LFLAGS" \
     -DWB_ENABLE_TESTS=OFF -DWB_UNITY_BUILD=OFF -DWB_MAKE_FORTRAN_WRAPPER=OFF -DWB_ENABLE_PYTHON=OFF \
     -DWB_ENABLE_HELPER_TARGETS=OFF -DWB_RUN_APP_TESTS=OFF -DUSE_MPI=OFF || exit 2
  ninja -C "$B/wb" -j "${GWB_JOBS:-16}" || exit 2
} >"$LOG" 2>&1 || { echo "BUILD FAILED ($FL), see $LOG" >&2; tail -30 "$LOG" >&2; exit 2; }
LIB="$B/wb/lib/libWorldBuilder.a"
INC="-I$REPO/include -I$B/wb/include -I$ROOT/src"
mk() { # mk <out> <src...> -- extra
  out="$1"; shift
  newest=$(ls -t "$@" "$LIB" "$ROOT/src"/*.h 2>/dev/null | head -1)
  if [ ! -e "$out" ] || [ "$newest" -nt "$out" ]; then
    $CXX -std=c++14 $FLAGS $INC "$@" -o "$out" -Wl,--whole-archive "$LIB" -Wl,--no-whole-archive $LFLAGS $EXTRA -pthread >>"$LOG" 2>&1 || { echo "BUILD FAILED ($FL: $out), see $LOG" >&2; tail -30 "$LOG" >&2; exit 2; }
  fi
}
EXTRA=""
mk "$B/wbmon" "$ROOT/src/wbmon.cc"
if [ "$FL" = fuzz ] && [ -e "$ROOT/src/fuzz_world.cc" ]; then
  EXTRA="-fsanitize=fuzzer"
  mk "$B/fuzz_world" "$ROOT/src/fuzz_world.cc"
fi
exit 0
