// libFuzzer harness for C12: raw bytes -> parameter file -> World construction -> a small battery of queries.
// Outcome allowed: constructed, or std::exception. Anything else (sanitizer report, signal, other exception, hang) is an artifact.
#include "world_builder/world.h"

#include <cstdint>
#include <cstdio>
#include <cstdlib>
#include <cmath>
#include <exception>
#include <string>
#include <unistd.h>
#include <fcntl.h>
#include <sys/stat.h>

using namespace WorldBuilder;

static std::string g_path;
static unsigned long g_constructed = 0, g_rejected = 0, g_total = 0, g_q_ok = 0, g_q_ex = 0;

static void report()
{
  const char *p = getenv("FUZZ_STATS");
  if (p == nullptr)
    return;
  std::string fn = std::string(p) + "." + std::to_string((long)getpid());
  FILE *f = fopen(fn.c_str(), "w");
  if (f)
    {
      fprintf(f, "total=%lu constructed=%lu rejected=%lu q_ok=%lu q_ex=%lu\n", g_total, g_constructed, g_rejected, g_q_ok, g_q_ex);
      fclose(f);
    }
}

extern "C" int LLVMFuzzerInitialize(int *, char ***)
{
  const char *dir = getenv("FUZZ_TMP");
  g_path = std::string(dir ? dir : "/dev/shm") + "/fuzz_world_" + std::to_string((long)getpid()) + ".wb";
  atexit(report);
  return 0;
}

extern "C" int LLVMFuzzerTestOneInput(const uint8_t *data, size_t size)
{
  if (size > 1 << 16)
    return 0;
  {
    FILE *f = fopen(g_path.c_str(), "wb");
    if (!f)
      abort();
    if (size)
      fwrite(data, 1, size, f);
    fclose(f);
  }
  ++g_total;
  if ((g_total & 1023) == 0)
    report();
  try
    {
      World world(g_path, false, "", 1);
      ++g_constructed;
      static const double pts[][4] = {{0, 0, 0, 0}, {1e5, 1e5, 9e5, 1e5}, {-2e5, 3e5, 6.2e6, 1.7e5}, {5e5, 5e5, -1e5, 1e5}, {6.3e6, 1e5, 1e5, 7e4}, {3e5, 4e5, 5e5, 2.5e5}};
      const std::vector<std::array<unsigned int, 3>> props = {{{1, 0, 0}}, {{2, 0, 0}}, {{2, 1, 0}}, {{3, 0, 2}}, {{4, 0, 0}}, {{5, 0, 0}}};
      for (const auto &p : pts)
        {
          try
            {
              std::array<double, 3> q = {{p[0], p[1], p[2]}};
              std::vector<double> out = world.properties(q, p[3], props);
              (void)out;
              ++g_q_ok;
            }
          catch (const std::exception &)
            {
              ++g_q_ex;
            }
          try
            {
              std::array<double, 2> q2 = {{p[0], p[2]}};
              std::vector<double> out = world.properties(q2, p[3], props);
              (void)out;
              ++g_q_ok;
            }
          catch (const std::exception &)
            {
              ++g_q_ex;
            }
        }
    }
  catch (const std::exception &e)
    {
      ++g_rejected;
      if (e.what() == nullptr || e.what()[0] == 0)
        {
          fprintf(stderr, "FUZZ-ORACLE: exception without message\n");
          abort();
        }
    }
  // any other exception type propagates -> libFuzzer reports "uncaught exception" / terminate
  return 0;
}
