// wbmon - the monitor process of the World Builder runtime-verification harness.
//
// Reads TAB separated commands from stdin (one per line), executes them against the
// real library compiled from /repo's working tree and writes one event line per command
// to stdout:  "<n>\tok\t<hex floats / tokens...>"  or  "<n>\tex\t<what()>"  or "<n>\texx".
// Doubles travel as C99 hex floats in both directions (bit exact).
// A line "case\t<id>" drops every object created so far and is echoed as "case\t<id>".
//
// See DESIGN.md section 2.2.

#include "world_builder/world.h"
#include "world_builder/wrapper_c.h"
#include "world_builder/wrapper_cpp.h"
#include "world_builder/utilities.h"
#include "world_builder/kd_tree.h"
#include "world_builder/point.h"
#include "world_builder/objects/surface.h"
#include "world_builder/objects/bezier_curve.h"
#include "world_builder/objects/natural_coordinate.h"
#include "world_builder/coordinate_systems/interface.h"
#include "world_builder/features/interface.h"
#include "world_builder/verif.h"

#include <atomic>
#include <chrono>
#include <cinttypes>
#include <cmath>
#include <cstdio>
#include <cstdlib>
#include <cstring>
#include <algorithm>
#include <fstream>
#include <functional>
#include <iostream>
#include <map>
#include <memory>
#include <mutex>
#include <random>
#include <sstream>
#include <string>
#include <thread>
#include <vector>

using namespace WorldBuilder;

namespace
{
  typedef std::vector<std::array<unsigned int,3>> Props;

  std::vector<std::string> split(const std::string &s, char sep)
  {
    std::vector<std::string> out;
    size_t start = 0;
    while (true)
      {
        const size_t pos = s.find(sep, start);
        if (pos == std::string::npos)
          {
            out.push_back(s.substr(start));
            break;
          }
        out.push_back(s.substr(start, pos-start));
        start = pos+1;
      }
    return out;
  }

  double D(const std::string &s)
  {
    char *end = nullptr;
    const double v = std::strtod(s.c_str(), &end);
    if (end == s.c_str() || *end != 0)
      throw std::string("bad double: ") + s;
    return v;
  }

  unsigned long U(const std::string &s)
  {
    char *end = nullptr;
    const unsigned long v = std::strtoul(s.c_str(), &end, 10);
    if (end == s.c_str() || *end != 0)
      throw std::string("bad unsigned: ") + s;
    return v;
  }

  long I(const std::string &s)
  {
    char *end = nullptr;
    const long v = std::strtol(s.c_str(), &end, 10);
    if (end == s.c_str() || *end != 0)
      throw std::string("bad int: ") + s;
    return v;
  }

  Props P(const std::string &s)
  {
    Props p;
    if (s.empty() || s == "-")
      return p;
    for (const auto &item : split(s, ';'))
      {
        const auto f = split(item, ',');
        if (f.size() != 3)
          throw std::string("bad property: ") + item;
        p.push_back({{static_cast<unsigned int>(U(f[0])), static_cast<unsigned int>(U(f[1])), static_cast<unsigned int>(U(f[2]))}});
      }
    return p;
  }

  std::string H(const double v)
  {
    char buf[64];
    std::snprintf(buf, sizeof(buf), "%a", v);
    return buf;
  }

  std::string HV(const std::vector<double> &v)
  {
    std::string s;
    for (size_t i = 0; i < v.size(); ++i)
      {
        if (i) s += ' ';
        s += H(v[i]);
      }
    return s;
  }

  std::string sanitize(std::string s)
  {
    for (auto &c : s)
      if (c == '\n' || c == '\t' || c == '\r')
        c = ' ';
    if (s.size() > 400)
      s.resize(400);
    return s;
  }

  CoordinateSystem CS(const std::string &s)
  {
    if (s == "c") return CoordinateSystem::cartesian;
    if (s == "s") return CoordinateSystem::spherical;
    throw std::string("bad coordinate system: ") + s;
  }

  struct State
  {
    std::map<long, std::unique_ptr<World>> worlds;
    std::map<long, void *> cworlds;
    std::map<long, std::unique_ptr<wrapper_cpp::WorldBuilderWrapper>> pworlds;
    std::map<long, std::unique_ptr<Objects::BezierCurve>> beziers;
    std::map<long, std::unique_ptr<Objects::Surface>> surfaces;
    std::map<long, std::unique_ptr<KDTree::KDTree>> kdtrees;

    void clear()
    {
      worlds.clear();
      for (auto &c : cworlds)
        release_world(c.second);
      cworlds.clear();
      pworlds.clear();
      beziers.clear();
      surfaces.clear();
      kdtrees.clear();
    }

    World &w(const std::string &id)
    {
      auto it = worlds.find(I(id));
      if (it == worlds.end())
        throw std::string("no such world: ") + id;
      return *it->second;
    }
    void *c(const std::string &id)
    {
      auto it = cworlds.find(I(id));
      if (it == cworlds.end())
        throw std::string("no such c world: ") + id;
      return it->second;
    }
    wrapper_cpp::WorldBuilderWrapper &p(const std::string &id)
    {
      auto it = pworlds.find(I(id));
      if (it == pworlds.end())
        throw std::string("no such cpp world: ") + id;
      return *it->second;
    }
  };

  std::vector<std::array<unsigned int,3>> to_c_props(const Props &p)
  {
    return p;
  }

  // ------------------------------------------------------------------------------------
  // Concurrent stress harness (C14). Pool file: one query per line
  //   "3\tx\ty\tz\td\tprops"  or  "2\tx\tz\td\tprops"
  // Every thread executes the whole pool in its own (seeded) order, `rounds` times.
  // Reference answers are computed single threaded after the threads have finished (the world is cold when they start).
  struct Query
  {
    int dim;
    std::array<double,3> p3;
    std::array<double,2> p2;
    double depth;
    Props props;
  };

  struct Answer
  {
    bool threw = false;
    std::vector<double> values;
    bool operator==(const Answer &o) const
    {
      if (threw != o.threw) return false;
      if (values.size() != o.values.size()) return false;
      return values.empty() || std::memcmp(values.data(), o.values.data(), values.size()*sizeof(double)) == 0;
    }
  };

  Answer run_query(const World &world, const Query &q)
  {
    Answer a;
    try
      {
        if (q.dim == 3)
          a.values = world.properties(q.p3, q.depth, q.props);
        else
          a.values = world.properties(q.p2, q.depth, q.props);
      }
    catch (std::exception &)
      {
        a.threw = true;
      }
    return a;
  }

  // the same query through the C interface (handle from create_world)
  Answer run_query_c(void *handle, const Query &q)
  {
    Answer a;
    try
      {
        std::vector<unsigned int> flat;
        for (const auto &e : q.props) { flat.push_back(e[0]); flat.push_back(e[1]); flat.push_back(e[2]); }
        flat.push_back(0);
        const unsigned int (*cp)[3] = reinterpret_cast<const unsigned int (*)[3]>(flat.data());
        const unsigned int n = properties_output_size(handle, cp, static_cast<unsigned int>(q.props.size()));
        a.values.assign(n, -12345.678);
        if (q.dim == 3)
          properties_3d(handle, q.p3[0], q.p3[1], q.p3[2], q.depth, cp, static_cast<unsigned int>(q.props.size()), a.values.data());
        else
          properties_2d(handle, q.p2[0], q.p2[1], q.depth, cp, static_cast<unsigned int>(q.props.size()), a.values.data());
      }
    catch (std::exception &)
      {
        a.threw = true;
      }
    return a;
  }

  std::string stress(World *world_ptr, void *c_handle, const std::string &poolfile, const unsigned int n_threads, const unsigned int rounds, const unsigned long seed)
  {
    auto run = [&](const Query &q)
    {
      return world_ptr != nullptr ? run_query(*world_ptr, q) : run_query_c(c_handle, q);
    };
    std::vector<Query> pool;
    {
      std::ifstream in(poolfile);
      if (!in)
        throw std::string("cannot open pool file ") + poolfile;
      std::string line;
      while (std::getline(in, line))
        {
          if (line.empty()) continue;
          const auto f = split(line, '\t');
          Query q;
          q.dim = static_cast<int>(I(f[0]));
          if (q.dim == 3)
            {
              if (f.size() != 6) throw std::string("bad pool line");
              q.p3 = {{D(f[1]), D(f[2]), D(f[3])}};
              q.depth = D(f[4]);
              q.props = P(f[5]);
            }
          else
            {
              if (f.size() != 5) throw std::string("bad pool line");
              q.p2 = {{D(f[1]), D(f[2])}};
              q.depth = D(f[3]);
              q.props = P(f[4]);
            }
          pool.push_back(q);
        }
    }
    if (pool.empty())
      throw std::string("empty pool");

    // The sequential reference is computed AFTER the threads have run: the first concurrent use of a world must find it cold
    // (state that is initialised lazily on first use is part of what the threads share).
    std::vector<Answer> reference(pool.size());
    std::vector<std::vector<std::pair<size_t,Answer>>> got(n_threads);

    std::atomic<unsigned int> ready(0);
    std::atomic<bool> go(false);
    std::atomic<unsigned long> seq(0);
    std::atomic<int> open_calls(0);
    std::atomic<int> max_open(0);
    std::atomic<unsigned long> overlapped_calls(0);
    std::atomic<unsigned long> mismatches(0);
    std::atomic<unsigned long> calls(0);
    std::mutex mismatch_mutex;
    std::vector<std::string> mismatch_samples;

    std::vector<std::thread> threads;
    for (unsigned int t = 0; t < n_threads; ++t)
      {
        threads.emplace_back([&, t]()
        {
          std::mt19937_64 rng(seed*1000003UL + t);
          std::vector<size_t> order(pool.size());
          for (size_t i = 0; i < order.size(); ++i) order[i] = i;
          ready++;
          while (!go.load()) { std::this_thread::yield(); }
          for (unsigned int r = 0; r < rounds; ++r)
            {
              // half of the threads walk the pool in the same order (maximal simultaneous
              // use of the same feature objects), the others in shuffled order
              if (t % 2 == 1)
                std::shuffle(order.begin(), order.end(), rng);
              for (const size_t i : order)
                {
                  const int now_open = ++open_calls;
                  int prev = max_open.load();
                  while (now_open > prev && !max_open.compare_exchange_weak(prev, now_open)) {}
                  if (now_open > 1)
                    overlapped_calls++;
                  seq++;
                  const Answer a = run(pool[i]);
                  seq++;
                  --open_calls;
                  calls++;
                  got[t].emplace_back(i, a);
                }
            }
        });
      }
    while (ready.load() < n_threads) { std::this_thread::yield(); }
    go.store(true);
    for (auto &th : threads)
      th.join();
    for (size_t i = 0; i < pool.size(); ++i)
      reference[i] = run(pool[i]);
    for (unsigned int t = 0; t < n_threads; ++t)
      for (const auto &ia : got[t])
        if (!(ia.second == reference[ia.first]))
          {
            mismatches++;
            if (mismatch_samples.size() < 5)
              mismatch_samples.push_back(std::to_string(t) + ":" + std::to_string(ia.first));
          }

    std::string out = "calls=" + std::to_string(calls.load())
                      + " mismatches=" + std::to_string(mismatches.load())
                      + " overlapped=" + std::to_string(overlapped_calls.load())
                      + " max_open=" + std::to_string(max_open.load())
                      + " pool=" + std::to_string(pool.size())
                      + " threw=" + std::to_string(std::count_if(reference.begin(), reference.end(), [](const Answer &a) { return a.threw; }));
    out += " samples=";
    for (size_t i = 0; i < mismatch_samples.size(); ++i)
      out += (i ? "," : "") + mismatch_samples[i];
    return out;
  }

  // ------------------------------------------------------------------------------------
  // Exhaustive polygon lattice check (C19): all simple polygons with nv vertices on an
  // L x L integer lattice (enumerated by the Python side is too slow, so it is done here):
  // the oracle is integer arithmetic.
  typedef long long ll;

  ll cross(ll ax, ll ay, ll bx, ll by, ll cx, ll cy)
  {
    return (bx-ax)*(cy-ay) - (by-ay)*(cx-ax);
  }

  bool on_segment(ll ax, ll ay, ll bx, ll by, ll px, ll py)
  {
    if (cross(ax,ay,bx,by,px,py) != 0) return false;
    return std::min(ax,bx) <= px && px <= std::max(ax,bx) && std::min(ay,by) <= py && py <= std::max(ay,by);
  }

  int sgn(ll v) { return v > 0 ? 1 : (v < 0 ? -1 : 0); }

  bool segments_intersect(ll ax, ll ay, ll bx, ll by, ll cx, ll cy, ll dx, ll dy)
  {
    const int d1 = sgn(cross(ax,ay,bx,by,cx,cy));
    const int d2 = sgn(cross(ax,ay,bx,by,dx,dy));
    const int d3 = sgn(cross(cx,cy,dx,dy,ax,ay));
    const int d4 = sgn(cross(cx,cy,dx,dy,bx,by));
    if (d1*d2 < 0 && d3*d4 < 0) return true;
    if (d1 == 0 && on_segment(ax,ay,bx,by,cx,cy)) return true;
    if (d2 == 0 && on_segment(ax,ay,bx,by,dx,dy)) return true;
    if (d3 == 0 && on_segment(cx,cy,dx,dy,ax,ay)) return true;
    if (d4 == 0 && on_segment(cx,cy,dx,dy,bx,by)) return true;
    return false;
  }

  // polygon with coordinates doubled (so half lattice points are integers)
  bool is_simple(const std::vector<std::array<ll,2>> &v)
  {
    const size_t n = v.size();
    for (size_t i = 0; i < n; ++i)
      {
        const size_t i2 = (i+1)%n;
        if (v[i] == v[i2]) return false;
      }
    for (size_t i = 0; i < n; ++i)
      {
        const size_t i2 = (i+1)%n;
        for (size_t j = i+1; j < n; ++j)
          {
            const size_t j2 = (j+1)%n;
            if (i == j) continue;
            const bool adjacent = (i2 == j) || (j2 == i);
            if (adjacent)
              {
                // adjacent edges share exactly one vertex; they must not overlap (collinear and folding back)
                // shared vertex:
                const std::array<ll,2> s = (i2 == j) ? v[j] : v[i];
                const std::array<ll,2> a = (i2 == j) ? v[i] : v[i2];
                const std::array<ll,2> b = (i2 == j) ? v[j2] : v[j];
                if (cross(s[0],s[1],a[0],a[1],b[0],b[1]) == 0)
                  {
                    // collinear: folding back if the dot product of (a-s).(b-s) > 0
                    const ll dot = (a[0]-s[0])*(b[0]-s[0]) + (a[1]-s[1])*(b[1]-s[1]);
                    if (dot > 0) return false;
                  }
                if (n == 3) continue;
              }
            else if (segments_intersect(v[i][0],v[i][1],v[i2][0],v[i2][1],v[j][0],v[j][1],v[j2][0],v[j2][1]))
              return false;
          }
      }
    // non-zero area
    ll area2 = 0;
    for (size_t i = 0; i < n; ++i)
      {
        const size_t i2 = (i+1)%n;
        area2 += v[i][0]*v[i2][1] - v[i2][0]*v[i][1];
      }
    return area2 != 0;
  }

  // closed polygon membership in integer arithmetic (boundary included): 2 = boundary
  int exact_contains(const std::vector<std::array<ll,2>> &v, ll px, ll py)
  {
    const size_t n = v.size();
    int wn = 0;
    for (size_t i = 0; i < n; ++i)
      {
        const size_t j = (i+1)%n;
        if (on_segment(v[i][0],v[i][1],v[j][0],v[j][1],px,py))
          return 2;
        if (v[i][1] <= py)
          {
            if (v[j][1] > py && cross(v[i][0],v[i][1],v[j][0],v[j][1],px,py) > 0)
              ++wn;
          }
        else
          {
            if (v[j][1] <= py && cross(v[i][0],v[i][1],v[j][0],v[j][1],px,py) < 0)
              --wn;
          }
      }
    return wn != 0 ? 1 : 0;
  }

  // lattice <L> <nv> <scale> <offx> <offy> <stride> <phase> <sys>
  // enumerates vertex tuples (first vertex index minimal to skip rotations), keeps every
  // `stride`-th simple polygon starting at `phase`, tests all lattice and half-lattice
  // points of [-1, L] x [-1, L]. Coordinates handed to the library are
  // off + scale * (integer/2): exactly representable when scale is a power of two.
  std::string lattice(const int L, const int nv, const double scale, const double offx, const double offy,
                      const unsigned long stride, const unsigned long phase, const CoordinateSystem cs)
  {
    const int npts = L*L;
    std::vector<int> idx(nv, 0);
    unsigned long polygons = 0, simple = 0, used = 0, tests = 0, boundary_tests = 0, inside_tests = 0, mismatches = 0;
    std::string first_mismatch;
    std::vector<std::array<ll,2>> v(nv);
    // iterate over all tuples idx[0] < every other (rotation canonical), all distinct
    std::vector<int> cur(nv);
    std::function<void(int)> rec = [&](int k)
    {
      if (k == nv)
        {
          ++polygons;
          for (int i = 0; i < nv; ++i)
            v[i] = {{2LL*(cur[i]%L), 2LL*(cur[i]/L)}};
          if (!is_simple(v))
            return;
          ++simple;
          if ((simple-1) % stride != phase)
            return;
          ++used;
          std::vector<Point<2>> poly;
          for (int i = 0; i < nv; ++i)
            poly.emplace_back(offx + scale*0.5*static_cast<double>(v[i][0]), offy + scale*0.5*static_cast<double>(v[i][1]), cs);
          for (ll py = -2; py <= 2LL*L; ++py)
            for (ll px = -2; px <= 2LL*L; ++px)
              {
                const int expect = exact_contains(v, px, py);
                const Point<2> p(offx + scale*0.5*static_cast<double>(px), offy + scale*0.5*static_cast<double>(py), cs);
                const bool got = Utilities::polygon_contains_point(poly, p);
                const bool got_impl = Utilities::polygon_contains_point_implementation(poly, p);
                ++tests;
                if (expect == 2) ++boundary_tests;
                if (expect == 1) ++inside_tests;
                if (got != (expect != 0) || got_impl != (expect != 0))
                  {
                    ++mismatches;
                    if (first_mismatch.empty())
                      {
                        std::ostringstream o;
                        o << "poly=";
                        for (int i = 0; i < nv; ++i)
                          o << (i ? ";" : "") << v[i][0] << "," << v[i][1];
                        o << "|pt=" << px << "," << py << "|expect=" << expect << "|got=" << got << "|impl=" << got_impl;
                        first_mismatch = o.str();
                      }
                  }
              }
          return;
        }
      for (int c = (k == 0 ? 0 : cur[0]+1); c < npts; ++c)
        {
          bool dup = false;
          for (int i = 0; i < k; ++i)
            if (cur[i] == c) { dup = true; break; }
          if (dup) continue;
          cur[k] = c;
          rec(k+1);
        }
    };
    rec(0);
    std::ostringstream o;
    o << "tuples=" << polygons << " simple=" << simple << " used=" << used << " tests=" << tests
      << " boundary=" << boundary_tests << " inside=" << inside_tests << " mismatches=" << mismatches
      << " first=" << (first_mismatch.empty() ? "-" : first_mismatch);
    return o.str();
  }

  std::string execute(State &st, const std::vector<std::string> &f)
  {
    const std::string &op = f[0];
    auto need = [&](size_t n)
    {
      if (f.size() != n)
        throw std::string("wrong number of fields for ") + op + ": " + std::to_string(f.size());
    };

    if (op == "world")
      {
        // world id seed has_output_dir noshortcuts output_dir path
        need(7);
        const bool nos = I(f[4]) != 0;
        Verif::disable_shortcuts = nos;
        try
          {
            std::unique_ptr<World> w(new World(f[6], I(f[3]) != 0, f[5] == "-" ? std::string("") : f[5], U(f[2])));
            Verif::disable_shortcuts = false;
            st.worlds[I(f[1])] = std::move(w);
          }
        catch (...)
          {
            Verif::disable_shortcuts = false;
            throw;
          }
        return "";
      }
    if (op == "shortcuts")
      {
        // process wide switch (used around queries for the surface lookup): 1 = shortcuts on
        need(2);
        Verif::disable_shortcuts = (I(f[1]) == 0);
        return "";
      }
    if (op == "drop")
      {
        need(2);
        st.worlds.erase(I(f[1]));
        return "";
      }
    if (op == "info")
      {
        need(2);
        World &w = st.w(f[1]);
        std::string s = w.parameters.coordinate_system->natural_coordinate_system() == CoordinateSystem::spherical ? "spherical" : "cartesian";
        s += " nfeatures=" + std::to_string(w.parameters.features.size());
        s += " cross=" + std::to_string(w.cross_section.size());
        s += " maxdepth=" + H(w.parameters.coordinate_system->max_model_depth());
        s += " depthmethod=" + std::to_string(static_cast<int>(w.parameters.coordinate_system->depth_method()));
        return s;
      }
    if (op == "tags")
      {
        need(2);
        World &w = st.w(f[1]);
        std::string s;
        for (size_t i = 0; i < w.feature_tags.size(); ++i)
          s += (i ? "|" : "") + w.feature_tags[i];
        return s;
      }
    if (op == "q3")
      {
        need(7);
        return HV(st.w(f[1]).properties(std::array<double,3> {{D(f[2]),D(f[3]),D(f[4])}}, D(f[5]), P(f[6])));
      }
    if (op == "q2")
      {
        need(6);
        return HV(st.w(f[1]).properties(std::array<double,2> {{D(f[2]),D(f[3])}}, D(f[4]), P(f[5])));
      }
    if (op == "size")
      {
        need(3);
        return std::to_string(st.w(f[1]).properties_output_size(P(f[2])));
      }
    if (op == "t3")
      {
        need(6);
        return H(st.w(f[1]).temperature(std::array<double,3> {{D(f[2]),D(f[3]),D(f[4])}}, D(f[5])));
      }
    if (op == "t2")
      {
        need(5);
        return H(st.w(f[1]).temperature(std::array<double,2> {{D(f[2]),D(f[3])}}, D(f[4])));
      }
    if (op == "c3")
      {
        need(7);
        return H(st.w(f[1]).composition(std::array<double,3> {{D(f[2]),D(f[3]),D(f[4])}}, D(f[5]), static_cast<unsigned int>(U(f[6]))));
      }
    if (op == "c2")
      {
        need(6);
        return H(st.w(f[1]).composition(std::array<double,2> {{D(f[2]),D(f[3])}}, D(f[4]), static_cast<unsigned int>(U(f[5]))));
      }
    if (op == "g3" || op == "g2")
      {
        WorldBuilder::grains g;
        unsigned int ngr;
        if (op == "g3")
          {
            need(8);
            ngr = static_cast<unsigned int>(U(f[7]));
            g = st.w(f[1]).grains(std::array<double,3> {{D(f[2]),D(f[3]),D(f[4])}}, D(f[5]), static_cast<unsigned int>(U(f[6])), ngr);
          }
        else
          {
            need(7);
            ngr = static_cast<unsigned int>(U(f[6]));
            g = st.w(f[1]).grains(std::array<double,2> {{D(f[2]),D(f[3])}}, D(f[4]), static_cast<unsigned int>(U(f[5])), ngr);
          }
        // same layout as the properties block: sizes first, then the matrices row by row
        std::vector<double> v;
        for (const double s : g.sizes) v.push_back(s);
        for (const auto &m : g.rotation_matrices)
          for (const auto &row : m)
            for (const double e : row)
              v.push_back(e);
        return HV(v);
      }
    if (op == "dist")
      {
        need(7);
        const Objects::PlaneDistances pd = st.w(f[1]).distance_to_plane(std::array<double,3> {{D(f[2]),D(f[3]),D(f[4])}}, D(f[5]), f[6]);
        return H(pd.get_distance_from_surface()) + " " + H(pd.get_distance_along_surface());
      }
    if (op == "gcdist")
      {
        // gcdist world radius lon1 lat1 lon2 lat2 (radians)
        need(7);
        World &w = st.w(f[1]);
        const double r = D(f[2]);
        return H(w.parameters.coordinate_system->distance_between_points_at_same_depth(Point<3>(r, D(f[3]), D(f[4]), CoordinateSystem::spherical),
                                                                                        Point<3>(r, D(f[5]), D(f[6]), CoordinateSystem::spherical)));
      }
    if (op == "ridge")
      {
        // ridge world depthcoord x y ridges velocities subducting  -> spreading_velocity distance subducting_velocity migration_time
        // ridges: "x,y;x,y|x,y;x,y" (natural coordinates: metres or radians), velocities: "v;v|v;v" (one per ridge point),
        // subducting: "v" or "v;v|v;v". Calls the library's own ridge kernel at a point given in natural coordinates.
        need(8);
        World &w = st.w(f[1]);
        const CoordinateSystem cs = w.parameters.coordinate_system->natural_coordinate_system();
        std::vector<std::vector<Point<2>>> ridges;
        for (const std::string &r : split(f[5], '|'))
          {
            std::vector<Point<2>> pts;
            for (const std::string &pt : split(r, ';'))
              {
                const std::vector<std::string> xy = split(pt, ',');
                if (xy.size() != 2) throw std::string("ridge point needs x,y");
                pts.emplace_back(D(xy[0]), D(xy[1]), cs);
              }
            ridges.push_back(pts);
          }
        auto lists = [&](const std::string &spec)
        {
          std::vector<std::vector<double>> out;
          for (const std::string &r : split(spec, '|'))
            {
              std::vector<double> v;
              for (const std::string &e : split(r, ';'))
                v.push_back(D(e));
              out.push_back(v);
            }
          return out;
        };
        const std::vector<std::vector<double>> vel = lists(f[6]);
        const std::vector<std::vector<double>> sub = lists(f[7]);
        std::array<double,3> nat;
        if (cs == CoordinateSystem::spherical)
          nat = {{D(f[2]), D(f[3]), D(f[4])}};
        else
          nat = {{D(f[3]), D(f[4]), D(f[2])}};
        const std::array<double,3> cart = w.parameters.coordinate_system->natural_to_cartesian_coordinates(nat);
        const Objects::NaturalCoordinate nc(cart, *(w.parameters.coordinate_system));
        const std::vector<double> times(ridges.size(), 0.0);
        const std::vector<double> r = Utilities::calculate_ridge_distance_and_spreading(ridges, vel, w.parameters.coordinate_system, nc, sub, times);
        return HV(r);
      }
    if (op == "n2c" || op == "c2n")
      {
        need(5);
        World &w = st.w(f[1]);
        const std::array<double,3> in = {{D(f[2]),D(f[3]),D(f[4])}};
        const std::array<double,3> out = op == "n2c" ? w.parameters.coordinate_system->natural_to_cartesian_coordinates(in)
                                         : w.parameters.coordinate_system->cartesian_to_natural_coordinates(in);
        return H(out[0]) + " " + H(out[1]) + " " + H(out[2]);
      }
    if (op == "stress")
      {
        // stress world poolfile nthreads rounds seed
        need(6);
        return stress(&st.w(f[1]), nullptr, f[2], static_cast<unsigned int>(U(f[3])), static_cast<unsigned int>(U(f[4])), U(f[5]));
      }
    if (op == "stress_c")
      {
        // stress_c chandle poolfile nthreads rounds seed : the same through properties_2d / properties_3d of the C interface
        need(6);
        return stress(nullptr, st.c(f[1]), f[2], static_cast<unsigned int>(U(f[3])), static_cast<unsigned int>(U(f[4])), U(f[5]));
      }

    // ---------------- C API
    if (op == "c_create")
      {
        // c_create id seed has_output_dir(-1 = NULL) output_dir("-" = NULL) path
        need(6);
        void *ptr = nullptr;
        const long has = I(f[3]);
        const bool has_b = has > 0;
        create_world(&ptr, f[5].c_str(), has < 0 ? nullptr : &has_b, f[4] == "-" ? nullptr : f[4].c_str(), U(f[2]));
        st.cworlds[I(f[1])] = ptr;
        return "";
      }
    if (op == "c_release")
      {
        need(2);
        release_world(st.c(f[1]));
        st.cworlds.erase(I(f[1]));
        return "";
      }
    if (op == "c_size")
      {
        need(3);
        const Props p = P(f[2]);
        std::vector<unsigned int> flat;
        for (const auto &e : p) { flat.push_back(e[0]); flat.push_back(e[1]); flat.push_back(e[2]); }
        flat.push_back(0);
        return std::to_string(properties_output_size(st.c(f[1]), reinterpret_cast<const unsigned int (*)[3]>(flat.data()), static_cast<unsigned int>(p.size())));
      }
    if (op == "c_q3" || op == "c_q2")
      {
        const bool three = op == "c_q3";
        need(three ? 7 : 6);
        const Props p = P(f[three ? 6 : 5]);
        std::vector<unsigned int> flat;
        for (const auto &e : p) { flat.push_back(e[0]); flat.push_back(e[1]); flat.push_back(e[2]); }
        flat.push_back(0);
        const unsigned int (*cp)[3] = reinterpret_cast<const unsigned int (*)[3]>(flat.data());
        const unsigned int n = properties_output_size(st.c(f[1]), cp, static_cast<unsigned int>(p.size()));
        // exactly n slots: a wrapper that writes more is caught by ASan
        std::vector<double> values(n, -12345.678);
        if (three)
          properties_3d(st.c(f[1]), D(f[2]), D(f[3]), D(f[4]), D(f[5]), cp, static_cast<unsigned int>(p.size()), values.data());
        else
          properties_2d(st.c(f[1]), D(f[2]), D(f[3]), D(f[4]), cp, static_cast<unsigned int>(p.size()), values.data());
        return HV(values);
      }
    if (op == "c_t3")
      {
        need(6);
        double t = -12345.678;
        temperature_3d(st.c(f[1]), D(f[2]), D(f[3]), D(f[4]), D(f[5]), &t);
        return H(t);
      }
    if (op == "c_t2")
      {
        need(5);
        double t = -12345.678;
        temperature_2d(st.c(f[1]), D(f[2]), D(f[3]), D(f[4]), &t);
        return H(t);
      }
    if (op == "c_c3")
      {
        need(7);
        double c = -12345.678;
        composition_3d(st.c(f[1]), D(f[2]), D(f[3]), D(f[4]), D(f[5]), static_cast<unsigned int>(U(f[6])), &c);
        return H(c);
      }
    if (op == "c_c2")
      {
        need(6);
        double c = -12345.678;
        composition_2d(st.c(f[1]), D(f[2]), D(f[3]), D(f[4]), static_cast<unsigned int>(U(f[5])), &c);
        return H(c);
      }
    // ---------------- C++ wrapper
    if (op == "p_create")
      {
        // p_create id seed has_output_dir output_dir path
        need(6);
        std::unique_ptr<wrapper_cpp::WorldBuilderWrapper> w(new wrapper_cpp::WorldBuilderWrapper(f[5], I(f[3]) != 0, f[4] == "-" ? std::string("") : f[4], U(f[2])));
        st.pworlds[I(f[1])] = std::move(w);
        return "";
      }
    if (op == "p_drop")
      {
        need(2);
        st.pworlds.erase(I(f[1]));
        return "";
      }
    if (op == "p_t3")
      {
        need(6);
        return H(st.p(f[1]).temperature_3d(D(f[2]), D(f[3]), D(f[4]), D(f[5])));
      }
    if (op == "p_t3g")
      {
        need(7);
        return H(st.p(f[1]).temperature_3d(D(f[2]), D(f[3]), D(f[4]), D(f[5]), D(f[6])));
      }
    if (op == "p_t2")
      {
        need(5);
        return H(st.p(f[1]).temperature_2d(D(f[2]), D(f[3]), D(f[4])));
      }
    if (op == "p_t2g")
      {
        need(6);
        return H(st.p(f[1]).temperature_2d(D(f[2]), D(f[3]), D(f[4]), D(f[5])));
      }
    if (op == "p_c3")
      {
        need(7);
        return H(st.p(f[1]).composition_3d(D(f[2]), D(f[3]), D(f[4]), D(f[5]), static_cast<unsigned int>(U(f[6]))));
      }
    if (op == "p_c2")
      {
        need(6);
        return H(st.p(f[1]).composition_2d(D(f[2]), D(f[3]), D(f[4]), static_cast<unsigned int>(U(f[5]))));
      }

    // ---------------- kernels
    if (op == "kd_new")
      {
        // kd_new id x1 y1 x2 y2 ...
        if (f.size() < 4 || f.size() % 2 != 0) throw std::string("kd_new needs pairs");
        std::vector<KDTree::Node> nodes;
        for (size_t i = 2; i+1 < f.size(); i += 2)
          nodes.emplace_back((i-2)/2, D(f[i]), D(f[i+1]));
        std::unique_ptr<KDTree::KDTree> tree(new KDTree::KDTree(nodes));
        tree->create_tree(0, nodes.size()-1, false);
        st.kdtrees[I(f[1])] = std::move(tree);
        return "";
      }
    if (op == "kd_q")
      {
        // kd_q id x y -> index distance | min_index min_distance n (i d)*   [indices into the ORIGINAL list]
        need(4);
        auto it = st.kdtrees.find(I(f[1]));
        if (it == st.kdtrees.end()) throw std::string("no such kdtree");
        const KDTree::KDTree &tree = *it->second;
        const Point<2> p(D(f[2]), D(f[3]), CoordinateSystem::cartesian);
        const KDTree::IndexDistance a = tree.find_closest_point(p);
        const KDTree::IndexDistances b = tree.find_closest_points(p);
        std::string s = std::to_string(tree.get_nodes()[a.index].index) + " " + H(a.distance) + " " + H(tree.get_nodes()[a.index].x) + " " + H(tree.get_nodes()[a.index].y)
                        + " " + std::to_string(tree.get_nodes()[b.min_index].index) + " " + H(b.min_distance) + " " + std::to_string(b.vector.size());
        for (const auto &e : b.vector)
          s += " " + std::to_string(tree.get_nodes()[e.index].index) + " " + H(e.distance);
        return s;
      }
    if (op == "poly")
      {
        // poly sys px py x1 y1 x2 y2 ... -> "a b" (wrapper, implementation)
        if (f.size() < 10 || f.size() % 2 != 0) throw std::string("poly needs pairs");
        const CoordinateSystem cs = CS(f[1]);
        const Point<2> p(D(f[2]), D(f[3]), cs);
        std::vector<Point<2>> poly;
        for (size_t i = 4; i+1 < f.size(); i += 2)
          poly.emplace_back(D(f[i]), D(f[i+1]), cs);
        return std::to_string(Utilities::polygon_contains_point(poly, p) ? 1 : 0) + " " + std::to_string(Utilities::polygon_contains_point_implementation(poly, p) ? 1 : 0)
               + " " + H(Utilities::signed_distance_to_polygon(poly, p));
      }
    if (op == "lattice")
      {
        need(9);
        return lattice(static_cast<int>(I(f[1])), static_cast<int>(I(f[2])), D(f[3]), D(f[4]), D(f[5]), U(f[6]), U(f[7]), CS(f[8]));
      }
    if (op == "bez_new")
      {
        // bez_new id sys x1 y1 ...
        if (f.size() < 7 || f.size() % 2 != 1) throw std::string("bez_new needs pairs");
        const CoordinateSystem cs = CS(f[2]);
        std::vector<Point<2>> pts;
        for (size_t i = 3; i+1 < f.size(); i += 2)
          pts.emplace_back(D(f[i]), D(f[i+1]), cs);
        std::unique_ptr<Objects::BezierCurve> b(new Objects::BezierCurve(pts));
        st.beziers[I(f[1])] = std::move(b);
        return "";
      }
    if (op == "bez_eval")
      {
        need(4);
        auto it = st.beziers.find(I(f[1]));
        if (it == st.beziers.end()) throw std::string("no such bezier");
        const Point<2> p = (*it->second)(U(f[2]), D(f[3]));
        return H(p[0]) + " " + H(p[1]);
      }
    if (op == "bez_close")
      {
        // bez_close id sys x y -> distance param_fraction interp_fraction index px py
        need(5);
        auto it = st.beziers.find(I(f[1]));
        if (it == st.beziers.end()) throw std::string("no such bezier");
        const Objects::ClosestPointOnCurve c = it->second->closest_point_on_curve_segment(Point<2>(D(f[3]), D(f[4]), CS(f[2])));
        return H(c.distance) + " " + H(c.parametric_fraction) + " " + H(c.interpolation_fraction) + " " + std::to_string(c.index) + " " + H(c.point[0]) + " " + H(c.point[1]);
      }
    if (op == "bez_brute2")
      {
        // bez_brute2 id sys x y nsamples nsegments
        need(7);
        auto it = st.beziers.find(I(f[1]));
        if (it == st.beziers.end()) throw std::string("no such bezier");
        const Objects::BezierCurve &curve = *it->second;
        const CoordinateSystem cs = CS(f[2]);
        const double qx = D(f[3]), qy = D(f[4]);
        const unsigned long ns = U(f[5]);
        const unsigned long nseg = U(f[6]);
        auto metric = [&](const size_t i, const double t) -> double
        {
          const Point<2> p = curve(i, t);
          if (cs == CoordinateSystem::cartesian)
            return std::sqrt((p[0]-qx)*(p[0]-qx) + (p[1]-qy)*(p[1]-qy));
          const double sl = std::sin(0.5*(p[1]-qy));
          const double so = std::sin(0.5*(p[0]-qx));
          const double h = sl*sl + std::cos(p[1])*std::cos(qy)*so*so;
          return 2.0*std::asin(std::min(1.0, std::sqrt(h)));
        };
        double best = std::numeric_limits<double>::infinity();
        size_t best_i = 0;
        double best_t = 0;
        for (size_t i = 0; i < nseg; ++i)
          {
            double seg_best = std::numeric_limits<double>::infinity();
            unsigned long seg_k = 0;
            for (unsigned long k = 0; k <= ns; ++k)
              {
                const double d = metric(i, static_cast<double>(k)/static_cast<double>(ns));
                if (d < seg_best) { seg_best = d; seg_k = k; }
              }
            double lo = std::max(0.0, (static_cast<double>(seg_k)-1.0)/static_cast<double>(ns));
            double hi = std::min(1.0, (static_cast<double>(seg_k)+1.0)/static_cast<double>(ns));
            const double gr = 0.6180339887498949;
            double c = hi - gr*(hi-lo), d = lo + gr*(hi-lo);
            double fc = metric(i, c), fd = metric(i, d);
            for (int iter = 0; iter < 80; ++iter)
              {
                if (fc < fd) { hi = d; d = c; fd = fc; c = hi - gr*(hi-lo); fc = metric(i, c); }
                else { lo = c; c = d; fc = fd; d = lo + gr*(hi-lo); fd = metric(i, d); }
              }
            const double t = 0.5*(lo+hi);
            const double dt = metric(i, t);
            double cand = std::min(seg_best, dt);
            double cand_t = dt <= seg_best ? t : static_cast<double>(seg_k)/static_cast<double>(ns);
            if (cand < best) { best = cand; best_i = i; best_t = cand_t; }
          }
        const Point<2> bp = curve(best_i, best_t);
        return H(best) + " " + std::to_string(best_i) + " " + H(best_t) + " " + H(bp[0]) + " " + H(bp[1]);
      }
    if (op == "s2c")
      {
        need(4);
        const Point<3> p = Utilities::spherical_to_cartesian_coordinates(std::array<double,3> {{D(f[1]),D(f[2]),D(f[3])}});
        return H(p[0]) + " " + H(p[1]) + " " + H(p[2]);
      }
    if (op == "c2s")
      {
        need(4);
        const std::array<double,3> s = Utilities::cartesian_to_spherical_coordinates(Point<3>(D(f[1]),D(f[2]),D(f[3]),CoordinateSystem::cartesian));
        return H(s[0]) + " " + H(s[1]) + " " + H(s[2]);
      }
    if (op == "surf_new")
      {
        // surf_new id nvalues v1..vn x1 y1 ... (n pairs; zero pairs = constant)
        if (f.size() < 4) throw std::string("surf_new too short");
        const size_t n = U(f[2]);
        std::vector<double> values, coords;
        for (size_t i = 0; i < n; ++i) values.push_back(D(f.at(3+i)));
        for (size_t i = 3+n; i < f.size(); ++i) coords.push_back(D(f[i]));
        std::unique_ptr<Objects::Surface> sf(new Objects::Surface(std::make_pair(values, coords)));
        st.surfaces[I(f[1])] = std::move(sf);
        return H(st.surfaces[I(f[1])]->minimum) + " " + H(st.surfaces[I(f[1])]->maximum) + " " + std::to_string(st.surfaces[I(f[1])]->triangles.size());
      }
    if (op == "surf_q")
      {
        // surf_q id sys x y -> value s t triangle
        need(5);
        auto it = st.surfaces.find(I(f[1]));
        if (it == st.surfaces.end()) throw std::string("no such surface");
        const Objects::SurfaceValueInfo v = it->second->local_value(Point<2>(D(f[3]), D(f[4]), CS(f[2])));
        return H(v.interpolated_value) + " " + H(v.interpolator_s) + " " + H(v.interpolator_t) + " " + std::to_string(v.triangle_index);
      }
    if (op == "ellipse")
      {
        // ellipse cx cy a e angle px py
        need(8);
        return H(Utilities::fraction_from_ellipse_center(Point<2>(D(f[1]),D(f[2]),CoordinateSystem::cartesian), D(f[3]), D(f[4]), D(f[5]), Point<2>(D(f[6]),D(f[7]),CoordinateSystem::cartesian)));
      }
    if (op == "ping")
      return "pong";
    throw std::string("unknown op: ") + op;
  }
}

int main(int argc, char **argv)
{
  (void) argc;
  (void) argv;
  std::ios::sync_with_stdio(false);
  State st;
  std::string line;
  unsigned long n = 0;
  while (std::getline(std::cin, line))
    {
      if (line.empty() || line[0] == '#')
        continue;
      const std::vector<std::string> f = split(line, '\t');
      if (f[0] == "case")
        {
          st.clear();
          Verif::disable_shortcuts = false;
          std::cout << "case\t" << (f.size() > 1 ? f[1] : "") << std::endl;
          continue;
        }
      ++n;
      std::string result;
      try
        {
          result = std::to_string(n) + "\tok\t" + execute(st, f);
        }
      catch (std::exception &e)
        {
          const std::string what = e.what();
          result = std::to_string(n) + "\tex\t" + (what.empty() ? "<EMPTY>" : sanitize(what));
        }
      catch (const std::string &e)
        {
          // harness errors (bad command)
          result = std::to_string(n) + "\tharness\t" + sanitize(e);
        }
      catch (...)
        {
          result = std::to_string(n) + "\texx\t";
        }
      std::cout << result << std::endl;
    }
  st.clear();
  std::cout << "end" << std::endl;
  return 0;
}
